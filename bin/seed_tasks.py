#!/usr/bin/env python3
"""usage: bin/seed_tasks.py <round>
Prepares round <round> of independently written breaking changes: one scratch
worktree of /repo per property under /tmp/seed<round>/<ID> and a task file
/tmp/seed<round>/out/<ID>/task.txt that contains ONLY the property text, the
summaries of the earlier changes for that property and the deliverables (nothing
from /verif).  The worktrees are removed after the round (see DESIGN 8.4)."""
import json, os, subprocess, sys

rnd = int(sys.argv[1])
base = '/tmp/seed%d' % rnd
props = {}
for l in open('/verif/properties.jsonl'):
    p = json.loads(l)
    props[p['id']] = p
os.makedirs(base + '/out', exist_ok=True)
EXTRA = {
    'C14': '\nFor this property the demo may need `go test -race`; say so in how_to_run_demo. The change must need a SPECIFIC interleaving/configuration, not something single-threaded use exposes.\n',
    'C19': '\nFor this property the change must need a SPECIFIC fault at a specific point (backing file closed/failing after the engine is built) to manifest; fault-free use must be unaffected.\n',
    'C20': '\nNote proxy/verif_export.go shows how the unexported filterHTML can be driven from an internal test in package proxy (build a Server and a Session yourself; do not use the verif-tagged file).\n',
    'C18': '\nStay inside the line grammar the property quantifies over (the comment text must not contain "$$" or "$@$", a known separate issue).\n',
    'C17': '\nStay INSIDE the contract of the property (well-formed hierarchical URLs as described there; no userinfo; no fragment directly after the host; hostnames for NewRequestForHostname lower-case without empty labels).\n',
}
IDEAS = sys.argv[2] if len(sys.argv) > 2 else (
    "a public accessor or entry point of the result/engine that the others did not touch (there are usually several equivalent ways to ask the same question); "
    "the ORDER in which results are used (a result inspected only after later calls were made; two results alive at once); "
    "the interplay of two features that are each fine alone (two modifiers on one rule, two rules of different kinds for the same name, a rule present in two lists); "
    "state that builds up over the lifetime of an engine/storage (counts, caches that fill, the N-th call) or differs between a fresh and a long-used object; "
    "platform-ish edges (very long inputs, inputs exactly at a power-of-two size, empty input, only-whitespace input); "
    "normalisation applied on one side of a comparison only (case, trailing dot, IDN/punycode, IPv6 textual forms, percent-encoding); "
    "an early return / fast path that is right for the common shape and wrong for a rarer legal one; "
    "sorting/deduplication whose comparator or key ignores a field.")
for pid, p in props.items():
    os.makedirs('%s/out/%s' % (base, pid), exist_ok=True)
    subprocess.check_call(['git', '-C', '/repo', 'worktree', 'add', '-q', '--detach', '%s/%s' % (base, pid), 'HEAD'])
    prevs = []
    for r in range(1, rnd):
        d = '/verif/seeded/%s%s/meta.json' % (pid, '' if r == 1 else '-%d' % r)
        if os.path.exists(d):
            prevs.append(json.load(open(d)))
    prevtxt = '\n'.join(' (%d) "%s" - needed: "%s"' % (i + 1, (pv.get('breaks') or pv.get('summary') or '')[:600], (pv.get('needs_to_manifest') or '')[:400]) for i, pv in enumerate(prevs))
    t = f"""You are working in a scratch git worktree of the Go library AdguardTeam/urlfilter at {base}/{pid} . Work ONLY inside {base}/{pid} and {base}/out/{pid} ; never read or touch /repo, /verif or any other worktree. Every shell call needs: export GOFLAGS=-mod=mod GOPROXY=off GOSUMDB=off GOTOOLCHAIN=local (there is no network). Ignore files whose name contains "verif" and the package internal/verifhook (build-tagged instrumentation; do not use or modify them).

PROPERTY {pid}: {p['title']}
Statement: {p['statement']}
Quantifier: {p['quantifier']['text']}

TASK: make a realistic change to the library's non-test source that BREAKS this property while (a) `go build ./...` still succeeds and (b) the existing test suite still passes unchanged: `go test -vet=off -count=1 ./...`. The change must look like a plausible regression (refactoring slip, optimisation, off-by-one, dropped guard, caching/memoisation, API modernisation, two cooperating sites that each look fine alone) - not sabotage - and it must need something SPECIFIC to manifest. Do not edit existing tests.{EXTRA.get(pid, '')}
IMPORTANT - be different: {len(prevs)} other engineers already submitted changes for this property:
{prevtxt}
Produce a change that is SUBSTANTIALLY DIFFERENT from all of them: another function or mechanism AND another kind of trigger. Ideas for kinds of trigger nobody has used yet (pick one that fits the code you read, or find your own): {IDEAS}

DELIVERABLES in {base}/out/{pid}/ :
 1. patch.diff - `git diff` of the library change only (no test files), applicable with `git apply` at the worktree root.
 2. a demonstration: a Go test file named zz_demo_test.go (say in meta.json which package directory it must be copied to) that FAILS with the change applied and PASSES without it.
 3. meta.json with keys: property ("{pid}"), summary, needs_to_manifest, files_changed, demo_file ("zz_demo_test.go"), demo_dir (directory relative to the worktree root, "." for the root), how_to_run_demo (exact command).
Verify yourself before finishing: with the change: build OK, whole suite passes, demo fails; without the change (git apply -R): demo passes. At the end leave the worktree CLEAN (git checkout -- . ; remove the demo file from the tree). Keep your final report SHORT (under 200 words): what you changed, what it needs to manifest, and the verification result.
"""
    open('%s/out/%s/task.txt' % (base, pid), 'w').write(t)
print('prepared', len(props), 'tasks under', base)
