#!/bin/bash
# Runs every quick check on the unchanged tree at several seeds; prints only problems.
cd /verif
for s in ${SEEDS:-1 2 3 4 5}; do
  for p in C01 C02 C03 C04 C05 C06 C07 C08 C09 C10 C11 C12 C13 C14 C15 C16 C17 C18 C19 C20; do
    out=$(VERIF_SEED=$s ./check $p ${TIER:-quick} 2>&1); r=$?
    v=$(echo "$out" | grep "verdict=" | sed 's/.*verdict=\([a-z]*\).*/\1/')
    if [ $r -ne 0 ] || [ "$v" != held ]; then echo "PROBLEM seed=$s $p exit=$r verdict=$v"; echo "$out" | grep -A3 '^VIOLATION' | head -8 | cut -c1-300; fi
  done
  echo "seed $s done"
done
