#!/bin/bash
# Reverts each fix: commit in a scratch worktree and runs the property's quick
# check at several seeds: the repaired defect must be re-detected at every seed.
cd /verif
declare -A MAP=( [c8af781]=C11,C01 [fcccfca]=C14 [7eaced0]=C01 [a13baa4]=C15 [ad75b25]=C18 [c0901cf]=C18 [2f0d3ac]=C08 [bffdb87]=C06 [3874a1a]=C08 [39ac5e1]=C08,C06 [e6e70c4]=C07 [4f4ec02]=C05 [72173ea]=C04 [86ca21a]=C03,C12,C04 [40e5c1b]=C09 [6ecc02e]=C09 [fdc0d7c]=C16 )
for h in "${!MAP[@]}"; do
  for seed in ${SEEDS:-1 2 3}; do
    VERIF_SEED=$seed MUTANT_LINES=0 bin/mutant_run.sh revert:$h ${MAP[$h]} quick 2>&1 | grep '^==' | sed "s/^/seed=$seed /"
  done
done
