#!/usr/bin/env python3
"""usage: seed_keep.py <src-dir> <dest-name> <property> <checks-run> <result-text>
Copies a confirmed seeded change to /verif/seeded/<dest-name>/ and records what was run."""
import json,sys,shutil,os,glob
src,dest,prop,checks,result=sys.argv[1:6]
d='/verif/seeded/'+dest
os.makedirs(d,exist_ok=True)
m=json.load(open(src+'/meta.json'))
shutil.copy(src+'/patch.diff',d+'/patch.diff')
demo=os.path.basename(m.get('demo_file',''))
if demo and os.path.exists(src+'/'+demo): shutil.copy(src+'/'+demo,d+'/'+demo)
out={"property":prop,"breaks":m.get('summary'),"needs_to_manifest":m.get('needs_to_manifest'),"files_changed":m.get('files_changed'),
 "demo_file":demo,"demo_dir":m.get('demo_dir'),"how_to_run_demo":m.get('how_to_run_demo'),
 "origin":"written by an independent sub-agent that saw only the property text and a scratch worktree",
 "confirmed":"bin/seed_confirm.sh in a scratch worktree of /repo HEAD: demo passes without the change; with the change: go build ok, existing suite passes, demo fails",
 "checks_run":checks,"result":result}
json.dump(out,open(d+'/meta.json','w'),indent=1)
print('kept',d)
