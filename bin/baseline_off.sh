#!/bin/bash
# Runs the repository's own test suite with the verif guard OFF (no build tag).
export GOFLAGS=-mod=mod GOPROXY=off GOSUMDB=off GOTOOLCHAIN=local
cd "${VERIF_REPO:-/repo}" || exit 2
go build ./... || exit 1
go test -json -vet=off -count=1 -timeout 25m ./... > /verif/.work/baseline_off.json 2>/verif/.work/baseline_off.err
rc=$?
python3 - <<'PY'
import json
p=f=0
failed=[]
for l in open('/verif/.work/baseline_off.json'):
    try: e=json.loads(l)
    except Exception: continue
    if e.get('Test') and e.get('Action') in ('pass','fail'):
        if e['Action']=='pass': p+=1
        else:
            f+=1; failed.append(e['Package']+'::'+e['Test'])
print(f"baseline (guard off): {p} passed, {f} failed")
for t in failed: print("FAILED", t)
PY
exit $rc
