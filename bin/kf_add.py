#!/usr/bin/env python3
"""usage: kf_add.py <property> <commit> <what> [witness-json]  -- appends a fixed: entry"""
import json,sys
p='/verif/known_findings.json'
d=json.load(open(p))
prop,commit,what=sys.argv[1:4]
e={"kind":"fixed","property":prop,"commit":commit,"what":"fixed: property=%s %s %s"%(prop,commit,what)}
if len(sys.argv)>4: e["witness"]=json.loads(sys.argv[4])
d['findings'].append(e)
json.dump(d,open(p,'w'),indent=1); open(p,'a').write('\n')
