#!/bin/bash
# usage: bin/seed_round.sh <round> [ID ...]
# Confirms every delivered change of a round (demo passes without / fails with
# the change, build and suite pass) and runs the property's own quick check
# against it; prints one line per change.
R=$1; shift
IDS=${*:-C01 C02 C03 C04 C05 C06 C07 C08 C09 C10 C11 C12 C13 C14 C15 C16 C17 C18 C19 C20}
for p in $IDS; do
  d=/tmp/seed$R/out/$p
  [ -f $d/patch.diff ] && [ -f $d/meta.json ] || { echo "$p: not delivered yet"; continue; }
  out=$(/verif/bin/seed_confirm.sh $d $p 2>&1)
  a=$(echo "$out" | grep -c "demo without change: exit=0")
  b=$(echo "$out" | grep "demo with change" | grep -vc "exit=0 ")
  bld=$(echo "$out" | grep -c "build with change: exit=0")
  suite=$(echo "$out" | sed -n '/demo with change/,/suite with change/p' | grep -c "^FAIL\|^--- FAIL.*Test[^Z]" )
  chk=$(echo "$out" | grep "== check" | sed 's/.*exit=//')
  sig=$(echo "$out" | grep -m2 "sig=" | sed 's/ count=.*//' | tr -s ' ' | tr '\n' ';')
  echo "$p: demo_ok_without=$a demo_fails_with=$b build_ok=$bld check_exit=$chk $sig"
done
