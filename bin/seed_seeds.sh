#!/bin/bash
# usage: seedseeds.sh <patchdir> <ID> seeds...
SRC=$1; ID=$2; shift 2
W=$(mktemp -d /tmp/vseed.XXXXXX); rmdir "$W"
git -C /repo worktree add -q --detach "$W" HEAD || exit 2
trap 'git -C /repo worktree remove --force "$W" >/dev/null 2>&1; rm -rf "$W"' EXIT
(cd "$W" && git apply "$SRC/patch.diff") || exit 2
for s in "$@"; do
  out=$(VERIF_SEED=$s VERIF_REPO="$W" /verif/check "$ID" quick 2>&1); r=$?
  echo "seed=$s exit=$r $(echo "$out" | grep -c '^VIOLATION') violation lines; $(echo "$out" | grep -m1 'sig=' | cut -c1-100)"
done
