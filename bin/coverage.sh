#!/bin/bash
# usage: bin/coverage.sh [tier] [seed]
# Statement coverage of the library that the workloads of the twenty checks
# actually drive (go build -cover, GOCOVERDIR per property).  This is not a
# check: it documents reach, and lists the functions no workload enters.
# Scratch data lives in a temporary directory which is removed at the end;
# the summary is written to coverage/SUMMARY.md.
set -u
cd "$(dirname "$0")/.."
VERIF=$(pwd)
TIER=${1:-quick}; SEED=${2:-1}
export GOFLAGS=-mod=mod GOPROXY=off GOSUMDB=off GOTOOLCHAIN=local
T=$(mktemp -d /tmp/vcov.XXXXXX)
trap 'rm -rf "$T"' EXIT
P=github.com/AdguardTeam/urlfilter
(cd harness && go build -tags verif -cover -coverpkg=./cmd/verifrun,$P,$P/rules,$P/lookup,$P/filterlist,$P/filterutil,$P/proxy -o "$T/verifrun" ./cmd/verifrun) || exit 2
mkdir -p coverage
{
 echo "# Library statement coverage reached by the check workloads"
 echo
 echo "tier=$TIER seed=$SEED, repository commit $(git -C /repo rev-parse --short HEAD), produced by bin/coverage.sh"
 echo "(C14 runs without the race detector here: its verdict is inconclusive by design, only its reach is recorded)."
 echo
 echo "| property | urlfilter | rules | lookup | filterlist | filterutil | proxy |"
 echo "|---|---|---|---|---|---|---|"
} > "$T/SUMMARY.md"
for id in C01 C02 C03 C04 C05 C06 C07 C08 C09 C10 C11 C12 C13 C14 C15 C16 C17 C18 C19 C20; do
  mkdir -p "$T/$id"
  GOCOVERDIR="$T/$id" VERIF_OUT_DIR="$T/out" "$T/verifrun" -prop $id -tier "$TIER" -seed "$SEED" -repo /repo -verif "$VERIF" > "$T/$id.log" 2>&1
  pc=$(go tool covdata percent -i="$T/$id")
  row="| $id"
  for pkg in "$P" "$P/rules" "$P/lookup" "$P/filterlist" "$P/filterutil" "$P/proxy"; do
    v=$(echo "$pc" | awk -v p="$pkg" '$1==p {print $3}')
    row="$row | ${v:-0%}"
  done
  echo "$row |" >> "$T/SUMMARY.md"
done
dirs=$(cd "$T" && ls -d C?? | sed "s#^#$T/#" | paste -sd,)
pc=$(go tool covdata percent -i="$dirs")
row="| **all**"
for pkg in "$P" "$P/rules" "$P/lookup" "$P/filterlist" "$P/filterutil" "$P/proxy"; do
  v=$(echo "$pc" | awk -v p="$pkg" '$1==p {print $3}')
  row="$row | **${v:-0%}**"
done
echo "$row |" >> "$T/SUMMARY.md"
go tool covdata textfmt -i="$dirs" -o "$T/all.txt"
{
 echo
 echo "## Functions not fully covered by the union of all workloads"
 echo
 echo '```'
 (cd harness && go tool cover -func="$T/all.txt") | awk '$3+0<100' | grep -v "verifharness\|verif_export\|verifhook\|^total" | sed "s#$P/##"
 echo '```'
} >> "$T/SUMMARY.md"
cp "$T/SUMMARY.md" coverage/SUMMARY.md
cat coverage/SUMMARY.md
