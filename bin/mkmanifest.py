#!/usr/bin/env python3
"""Regenerates /verif/MANIFEST.json from the table below (kept in one place so
that the manifest stays valid while properties come online one by one)."""
import json, subprocess, os

ALL = ["C%02d" % i for i in range(1, 21)]

# property id -> (level category, level text, level note, technique, design ref)
CHECKS = {
 "C14": ("exploration",
         "Go race detector plus a sequential-consistency oracle over stress rounds: each round builds a fresh cold String- or File-backed engine (DNS, web, MatchAll, cosmetic), releases 2..32 goroutines on a request multiset with few distinct keys, and perturbs the schedule at the hook points (cache miss/insert, between Seek and read, before regexp.Compile, pool get/put) with yields, microsecond sleeps or a rendezvous that holds the first goroutine at a miss/seek/compile point until a second one reaches the same point and key. Race reports are parsed after every round; every concurrent answer must equal the sequential answer of a separate engine; the evidence reports overlapping miss windows, rendezvous met and the number of distinct miss/insert orders observed, and a run that observed no overlap is inconclusive.",
         "Only the schedules the Go scheduler produces under perturbation are seen; the race detector sees only executed accesses; answers are compared as sorted text multisets.",
         "Go race detector + schedule perturbation at hook points + per-operation sequential-answer oracle",
         "DESIGN.md section 4, C14"),
 "C19": ("fault_enumeration",
         "Fault enumeration: for every query history (10..60 queries with repeats) EVERY fault point k in 0..n times every fault kind (storage Close, closed descriptor, directory descriptor whose reads fail with EISDIR) is executed on a rebuilt file-backed DNS or network engine; after the fault no panic, result subset of the fault-free String-backed twin, every returned rule individually matches, and every rule materialised before the fault (tracked through the storage.insert hook and GetCacheSize) is still served.",
         "Fault kinds are the three listed; real EIO on read and Close concurrent with queries are explored in the thorough tier only; with a subset of rules the selected basic rule may differ from the fault-free one.",
         "runtime fault injection at every history position with subset/served-from-cache oracle",
         "DESIGN.md section 4, C19"),
 "C01": ("exploration",
         "Differential execution of the indexed engine against a linear scan of independently parsed rule objects: generated pools that mix all three index paths, hash-colliding 5-byte windows and $domain values, wildcard domains, duplicates and inert lines, each inserted in several permutations / splits / list ids, queried with requests aimed at the rules and at the index edge cases (shortcut at the very end, 0..5-byte URLs, repeated windows, > 4 KiB); plus the three bundled real lists against real requests. Hook counters prove that bucket hits that Match then rejects were reached.",
         "NetworkRule.Match defines 'individually matches' (its correctness is C03/C04/C05); results compared as sets of rule texts; pools and requests are sampled.",
         "runtime differential oracle (linear scan of the storage) with hook-event coverage counters",
         "DESIGN.md section 4, C01"),
 "C02": ("exploration",
         "Differential execution of DNSEngine.MatchRequest against a reference resolution that scans every rule with a fresh request: NetworkRules set, nil-ness/class/candidate membership of the basic rule, host rules only without a basic rule and split by family, matched flag; lists mix DNS-level and browser-only rules, hosts lines and bare domains over FastHash-colliding host names; plus the 58 k-line hosts file and the SDN filter with real and perturbed names.",
         "'Matches' is the rule's own Match, which is compared in the same run with the independent spec-level matcher of C04 wherever that has an opinion (mask rules without $badfilter); the applicability classification follows the statement with content-type and match-case as declared don't-care; sampled.",
         "runtime differential oracle (reference resolution over all rules) with hook-event coverage counters",
         "DESIGN.md section 4, C02"),
 "C12": ("exploration",
         "Crash harvesting plus a metamorphic oracle: grammar-rendered, real-list and hand-made hostile lines with byte mutations go through every constructor, Match (twice, which reaches the lazily compiled pattern), the priority and selection functions and construction/querying of all four engines inside recover-guards in journalled worker processes (a dead worker is diagnosed from the journal); inserting blank/comment/rejected lines, CRLF line ends and a missing final newline must leave every engine answer unchanged.",
         "The Go runtime is the memory monitor (panics, fatal errors); termination is bounded progress under a watchdog (inconclusive, not violated, when it fires); inputs are sampled.",
         "runtime crash monitor (recover + process journal) and metamorphic inertness oracle",
         "DESIGN.md section 4, C12"),
 "C13": ("exploration",
         "History-based execution: long query histories with heavy repetition over DNS, web, MatchAll and cosmetic queries, interleaved with derived computations on OLD results, against String- and File-backed engines; every answer is compared with the answer of a fresh engine over the same bytes and every kept result object is re-snapshotted after every later operation.",
         "Snapshots cover exported state; histories are sampled; pool reuse is whatever sync.Pool does sequentially.",
         "runtime history oracle (fresh-engine equivalence + result immutability snapshots)",
         "DESIGN.md section 4, C13"),
 "C11": ("exploration",
         "Differential execution of both readers: generated list contents (every line-ending style, BOM, NUL, multi-byte characters on the 4 KiB buffer boundary, lines of 4094..10000 bytes, 1..4 lists with extreme int32 ids, IgnoreCosmetic on/off, a twin list with identical offsets) are scanned and compared with a line-by-line reference parse; every yielded index is retrieved cold and warm in random order from a String-backed and a File-backed storage, and engines built on both answer a request sample identically (quick 3000 storages / 2e8 bytes, thorough 1e5).",
         "Reference parse calls rules.NewRule per line as the statement defines; scan completely, then retrieve; contents are sampled from a line pool.",
         "runtime differential oracle (line-by-line reference parse; String vs File backing)",
         "DESIGN.md section 4, C11"),
 "C15": ("exploration",
         "Differential execution: random lists of element-hiding rules and exceptions against 22 hostnames on every domain boundary and all 8 flag combinations, through CosmeticEngine.Match and Engine.GetCosmeticResult, compared per bucket with the reference the statement defines (CosmeticRule.Match over all rules minus same-selector exceptions) (quick 2e6, thorough 1e8 evaluations).",
         "CosmeticRule.Match is taken as the definition of 'applies'; buckets are compared as sets; lists are sampled.",
         "runtime differential oracle (linear reference over all cosmetic rules)",
         "DESIGN.md section 4, C15"),
 "C10": ("exploration",
         "Grammar-based and mutation-based execution of the $dnsrewrite parser (quick 4.8e6, thorough 1.4e8 values): every accepted value is judged by a shape predicate written from the RRValue contract, by a consumer that type-asserts by record type, by a determinism check, and - where the documented grammar decides validity - by the generator's expectation (valid => expected content, malformed => error).",
         "The shape predicate is the trusted statement of the contract; expectations are asserted only for grammar-built values, mutated values are judged by shape alone; the value space is sampled.",
         "runtime invariant (shape predicate) + expectation oracle over grammar-generated and mutated values",
         "DESIGN.md section 4, C10"),
 "C17": ("exploration",
         "Differential execution against net/url and publicsuffix on generated URLs of exactly the contract shape, hosts from every PSL class plus the 58 k real hosts and the 30 k real request URLs bundled with the repository, including third-party symmetry under swapping (quick 1.1e6, thorough 5e7 requests).",
         "net/url and golang.org/x/net/publicsuffix are the reference; URLs rejected by net/url and fragments directly after the host are outside the contract; hostnames for NewRequestForHostname are lower-case.",
         "runtime differential oracle (standard library URL parser and PSL)",
         "DESIGN.md section 4, C17"),
 "C18": ("exploration",
         "Grammar-based execution: lines generated from the hosts-file grammar of the statement (addresses of three families, 1..8 names, spaces/tabs, comments with and without a preceding blank, trailing blanks, hostile comment bodies) through NewRule, NewHostRule and, twelve at a time, through DNSEngine.Match with perturbed names (quick 2.4e6, thorough 1.2e8 evaluations). One genuine defect that is not small to repair is recorded as a known finding and matched narrowly.",
         "The generator is the reference (it knows address, names, comment); comments that start a cosmetic marker without a preceding blank are outside the grammar by design.",
         "runtime differential oracle (generator-as-reference) over grammar-generated lines",
         "DESIGN.md section 4, C18"),
 "C20": ("exploration",
         "Byte-level oracle on the real filterHTML (hook VerifFilterHTML): bodies over all 256 byte values, plain or gzip, with markers in random letter case placed before, at, straddling and beyond the 16 KiB window and with high-byte padding that separates byte and transcoded offsets; the output must be exactly body[:i]+tag+body[i:] or the body, with matching Content-Length and no Content-Encoding.",
         "Between the byte offset bound and the transcoded offset bound either exact outcome is accepted; bodies are sampled.",
         "runtime byte-exact splice oracle on hooked filterHTML",
         "DESIGN.md section 4, C20"),
 "C06": ("exploration",
         "Randomised multisets of 1..5 matching rules over the feature combinations of the statement, every one executed in ALL its permutations through NewMatchingResult / GetDNSBasicRule and in sampled permutations through Engine, NetworkEngine and DNSEngine with random list splits; the verdict class is compared with a precedence reference computed on the specs and the selected rule is checked not to be a rewrite, badfilter, disabled or stealth rule. Order dependence is what the tests cannot see, and all-permutations execution reaches it directly.",
         "Reference precedence is written from the statement (a referrer-level $urlblock exception suppresses every blocking rule, $genericblock those without a permitted $domain); multisets are sampled, not enumerated; twins keep value order.",
         "runtime differential oracle (precedence reference on specs) over all permutations of sampled rule multisets",
         "DESIGN.md section 4, C06"),
 "C07": ("exploration",
         "Exhaustive over a pool of 5120 rules that covers every combination of the features the comparison reads: irreflexivity, asymmetry, class order and specific-over-generic on all 26 M ordered pairs, add-one-modifier => strictly higher for every rule, transitivity of > and of ties on all triples of PRNG-drawn 90-rule subsets (quick 4.7e7, thorough 1.5e9 triples), and selection maximality / order independence for candidate lists in all permutations.",
         "'Exhaustive' is relative to the pool; the order axioms are checked on the relation the code computes, the agreement clauses (class, specific over generic, add-a-modifier) come from the statement; triples are sampled subsets, not all 1.3e11.",
         "runtime invariant check of order axioms, exhaustive over a feature-complete rule pool",
         "DESIGN.md section 4, C07"),
 "C08": ("exploration",
         "Metamorphic execution: verdicts before and after adding k=1..4 mutually similar rules with their $badfilter twins at random positions, and before/after adding x$badfilter next to a rule y that differs from x in exactly one aspect (12 aspects), compared through rule objects (exact) and through the web and DNS engines (up to priority ties), including DNSRewrites().",
         "Base lists and variations are sampled; twins keep the value order inside a modifier; through engines a changed selection inside a priority tie is accepted because added rules legitimately change index buckets.",
         "runtime metamorphic oracle (twin insertion, one-aspect neighbour) on rule objects and engines",
         "DESIGN.md section 4, C08"),
 "C03": ("exploration",
         "Bounded-exhaustive runtime comparison: every token string up to length 3 (thorough 4) over the 20 mask/regex-metacharacter tokens, also in ||-prefixed, /*-suffixed and pipe-wrapped forms, is compiled by the rule itself (hook VerifPrepared) and compared with a hand-written token matcher on every string up to length 4 (thorough 5) over a per-pattern reduced alphabet under up to 12 scheme/subdomain prefixes, plus walked witnesses and near misses that also go through NetworkRule.Match (quick: 8e7 comparisons, thorough: 6e9). The statement asks for language equivalence per pattern; executions can only give this bounded enumeration, and the evidence says so.",
         "Reference matcher is hand-written from the documented mask syntax and the library's documented constants for START_URL and the separator class; space is excluded from strings; disagreements that need a string longer than the bound and outside the witness set are missed; patterns the rule text cannot express (e.g. ending in a backslash before '$') are counted inconclusive.",
         "runtime differential oracle (reference token matcher vs. the rule's own compiled regexp) over bounded-exhaustive patterns x strings",
         "DESIGN.md section 4, C03"),
 "C04": ("exploration",
         "Randomised differential execution: rules rendered from structured specs (any subset of the modifier kinds, shuffled values, negations, quoted/escaped clients, CIDR) against requests aimed at the boundaries of exactly those conditions; NetworkRule.Match is compared with a reference evaluator that works on the spec and derives request facts with net/url and publicsuffix (quick 5e6, thorough 2e8 rule/request pairs).",
         "Reference evaluator and the C03 mask matcher are the trusted base; lower-case hosts and domain values; IPv4-mapped/zoned clients and private-suffix hosts under name.* are don't-care; only mask patterns.",
         "runtime differential oracle (reference evaluator on structured specs) with boundary-targeted request generation",
         "DESIGN.md section 4, C04"),
 "C05": ("exploration",
         "Runtime witness search: for grammar-generated regex rules, every regex rule of the bundled lists and mask patterns, strings are synthesised by biased walks over the regexp/syntax tree (other alternation branch, zero repetitions, class boundaries, case flips), filtered by the rule's own compiled regexp, and each accepted string must contain the shortcut and (for modifier-free rules) Match.",
         "Acceptance is sampled, emptiness of L(r) minus 'contains shortcut' is not decided; trusts regexp/syntax for parsing the expression the same way regexp.Compile does.",
         "runtime invariant check (accepted => contains shortcut) over synthesised witnesses filtered by the real compiled matcher",
         "DESIGN.md section 4, C05"),
 "C09": ("exploration",
         "Bounded-exhaustive execution: every sequence of length 0..4 over a 16-symbol alphabet of rewrite shapes (quick; thorough adds lengths 5..6) plus PRNG-sampled sequences up to length 12 over all 78 shape variants, each run through DNSResult.DNSRewrites and (sampled) through a DNS engine, judged by an order-independent reference filter written from the statement. Order dependence and value-equality defects need several exceptions in particular positions, which enumeration of short sequences reaches completely.",
         "Trusts the rule parser for the 19 value shapes used (C10 checks shapes); sequences longer than the bound are sampled only; keyword NOERROR as an exception value is a declared don't-care.",
         "runtime differential oracle (reference filter) over bounded-exhaustive and sampled sequences",
         "DESIGN.md section 4, C09"),
 "C16": ("exploration",
         "Exhaustive execution of all 512 modifier subsets through three access paths (rule objects, full engine, decoded cosmetic result) with three neighbouring-rule situations and the one-step monotonicity relation; the input space of the statement is finite, so running it completely is the right level.",
         "Trusts the documented meaning of $document (elemhide+jsinject+urlblock+content+extension) and the C06 class order for the important-blocking-rule variant; only the combinations of the nine listed modifiers are covered.",
         "runtime differential oracle, exhaustive finite input space",
         "DESIGN.md section 4, C16"),
}

def main():
    here = os.path.dirname(os.path.dirname(os.path.abspath(__file__)))
    hooks_commits = []
    try:
        out = subprocess.check_output(["git", "-C", "/repo", "log", "--format=%H %s"], text=True)
        for l in out.splitlines():
            h, s = l.split(" ", 1)
            if s.startswith("verif hooks"):
                hooks_commits.append(h)
    except Exception:
        pass
    checks = []
    for pid in ALL:
        if pid not in CHECKS:
            continue
        cat, text, note, tech, ref = CHECKS[pid]
        checks.append({
            "property_id": pid,
            "quick_cmd": "./check %s quick" % pid,
            "thorough_cmd": "./check %s thorough" % pid,
            "evidence_file": "/verif/evidence/%s.json" % pid,
            "replay_cmd_template": "./check %s --replay {path}" % pid,
            "engine": "verifrun",
            "level_claimed": {"category": cat, "text": text, "design_ref": ref},
            "level_note": note,
            "technique": tech,
        })
    na = [{"property_id": p, "reason": NOT_APPLICABLE.get(p, "monitor not built yet in this round; planned in DESIGN.md section 4 (runtime monitoring applies, nothing is claimed until the check exists)")}
          for p in ALL if p not in CHECKS]
    m = {
        "version": 1,
        "setup_cmd": "./setup.sh",
        "hooks": {
            "guard": "verif (Go build tag)",
            "enable": "go build -tags verif (the ./check script builds harness/cmd/verifrun with -tags verif against /repo through a replace directive; C14 additionally with -race)",
            "baseline_off_cmd": "bin/baseline_off.sh",
            "source_commits": hooks_commits,
            "add_only": True,
        },
        "engines": [{
            "name": "verifrun",
            "path": "harness/cmd/verifrun",
            "serves_properties": [c["property_id"] for c in checks],
            "kind_free_text": "Go runtime-monitoring harness: deterministic case lists per (seed, tier), worker processes with a case journal and crash harvesting, reference-model / metamorphic / invariant oracles judging every observed result, hook-event counters, Go race detector for the concurrency property",
        }],
        "checks": checks,
        "not_applicable": na,
        "notes": "All checks decide by observing executions of the real code (technique family: runtime monitoring and sanitizers). VERIF_SEED seeds every random choice; exit 1 + VIOLATION line only for violations not listed in known_findings.json.",
    }
    with open(os.path.join(here, "MANIFEST.json"), "w") as f:
        json.dump(m, f, indent=1)
        f.write("\n")

NOT_APPLICABLE = {}

if __name__ == "__main__":
    main()
