#!/bin/bash
# usage: bin/seed_confirm.sh <src-dir-with patch.diff,meta.json,demo> <ID[,ID..]> [tier]
# Confirms a seeded breaking change in a scratch worktree (build, suite passes,
# demo fails with / passes without) and runs the named checks against it.
set -u
SRC=$1; IDS=$2; TIER=${3:-quick}
export GOFLAGS=-mod=mod GOPROXY=off GOSUMDB=off GOTOOLCHAIN=local
W=$(mktemp -d /tmp/vseed.XXXXXX); rmdir "$W"
git -C /repo worktree add -q --detach "$W" HEAD || exit 2
trap 'git -C /repo worktree remove --force "$W" >/dev/null 2>&1; rm -rf "$W"' EXIT
DEMO=$(python3 -c "import json;m=json.load(open('$SRC/meta.json'));print(m.get('demo_file',''))")
DDIR=$(python3 -c "import json;m=json.load(open('$SRC/meta.json'));print(m.get('demo_dir','.') or '.')")
DDIR=${DDIR#/}; [ "$DDIR" = "" ] && DDIR=.
case "$DDIR" in *repo\ root*|root|"(root)"|"<root>") DDIR=.;; esac
[ -d "$W/$DDIR" ] || DDIR=.
cp "$SRC/$(basename $DEMO)" "$W/$DDIR/" || { echo "no demo file"; exit 2; }
PKG=./$DDIR
( cd "$W" && go test -vet=off -count=1 $PKG >/tmp/vseed.out.$$ 2>&1 ); a=$?
echo "demo without change: exit=$a (expect 0)"; [ $a -ne 0 ] && tail -5 /tmp/vseed.out.$$
( cd "$W" && git apply "$SRC/patch.diff" ) || { echo "patch does not apply at HEAD: using the tree before fix c8af781"; ( cd "$W" && git checkout -q --detach 31d0fcb && git apply "$SRC/patch.diff" && { git diff 31d0fcb "$(git -C /repo rev-parse HEAD)" -- '*verif_export.go' internal/verifhook | git apply --allow-empty; } ) || { echo "PATCH DOES NOT APPLY"; exit 2; }; }
( cd "$W" && go build ./... ) ; echo "build with change: exit=$? (expect 0)"
( cd "$W" && go test -vet=off -count=1 $PKG >/tmp/vseed.out.$$ 2>&1 ); b=$?
echo "demo with change: exit=$b (expect non-zero)"; grep -m3 -- '--- FAIL' /tmp/vseed.out.$$
rm -f "$W/$DDIR/$(basename $DEMO)"
( cd "$W" && go test -vet=off -count=1 ./... 2>&1 | grep -v "no test files" | grep -v '^ok' ); echo "suite with change (lines above = failures; none expected)"
rm -f /tmp/vseed.out.$$
for ID in ${IDS//,/ }; do
  out=$(VERIF_REPO="$W" /verif/check "$ID" "$TIER" 2>&1); r=$?
  echo "== check $ID $TIER against the change: exit=$r"
  echo "$out" | grep -A2 '^VIOLATION' | head -6 | cut -c1-260
  echo "$out" | grep "verdict=" | cut -c1-200
done
