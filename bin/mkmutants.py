#!/usr/bin/env python3
"""Generates /verif/mutants/<ID>/<name>.patch from textual replacements against
the current /repo HEAD (in a scratch worktree under /tmp, removed afterwards).
Each mutant is a realistic breaking change that still compiles."""
import os, subprocess, sys, tempfile, shutil

M = []
def m(pid, name, path, old, new, count=1):
    M.append((pid, name, path, old, new, count))

# Mutants that turned out to be equivalent under the contracts and were removed:
#  C04 dnstype-restricted-ignored-when-permitted (differs only for a type that is both permitted and restricted),
#  C05 repeat-min-zero-accepted (the heuristic never proposes a shortcut inside a {0,n} group),
#  C09 rcode-match-ignores-type (differs only for the keyword NOERROR exception, a declared don't-care),
#  C20 index-on-lowercased-copy (lower-casing Latin-1 text keeps every byte offset).
#  C01 histogram-vs-stored-window (a rule may be filed under any window of its shortcut; only speed changes).
# ---- C01
m("C01", "window-loop-off-by-one", "lookup/shortcutstable.go",
  "for i := 0; i <= len(r.URLLowerCase)-shortcutLength; i++ {", "for i := 0; i < len(r.URLLowerCase)-shortcutLength; i++ {")
m("C01", "no-match-recheck-after-bucket-hit", "lookup/shortcutstable.go",
  "if rule == nil || ruleIn(rule, result) || !rule.Match(r) {", "if rule == nil || ruleIn(rule, result) || !strings.Contains(r.URLLowerCase, rule.Shortcut) {")
m("C01", "subdomains-skip-full-host", "lookup/domainstable.go",
  "for i := len(parts) - 1; i >= 0; i-- {", "for i := len(parts) - 1; i > 0; i-- {")
m("C01", "domains-table-no-match-recheck", "lookup/domainstable.go",
  "if rule != nil && rule.Match(r) {", "if rule != nil && len(rule.GetPermittedDomains()) > 0 {")
# ---- C02
m("C02", "host-rule-no-match-recheck", "dnsengine.go",
  "if rule != nil && rule.Match(hostname) {", "if rule != nil {")
m("C02", "load-all-network-rules", "dnsengine.go",
  "			if f.IsHostLevelNetworkRule() {\n				networkEngine.AddRule(f, idx)\n			}", "			networkEngine.AddRule(f, idx)")
m("C02", "host-rules-next-to-basic-rule", "dnsengine.go",
  "		res.NetworkRule = resultRule\n\n		return res, true", "		res.NetworkRule = resultRule")
m("C02", "is4-inverted-for-mapped", "dnsengine.go",
  "if hostRule.IP.Is4() {", "if hostRule.IP.Is4() || hostRule.IP.Is4In6() {")
# ---- C03
m("C03", "plus-not-escaped", "rules/regex.go", "	`+`, `\\+`,\n", "")
m("C03", "separator-class-without-percent", "rules/regex.go", 'RegexSeparator = "([^ a-zA-Z0-9.%_-]|$)"', 'RegexSeparator = "([^ a-zA-Z0-9._-]|$)"')
m("C03", "trailing-pipe-escaped", "rules/regex.go",
  "strings.ReplaceAll(regex[len(MaskPipe):len(regex)-1], MaskPipe, \"\\\\\"+MaskPipe) +\n			regex[len(regex)-1:]",
  "strings.ReplaceAll(regex[len(MaskPipe):], MaskPipe, \"\\\\\"+MaskPipe)")
m("C03", "case-insensitive-flag-dropped-for-start-url", "rules/network.go",
  '	if !f.IsOptionEnabled(OptionMatchCase) {\n		pattern = "(?i)" + pattern\n	}',
  '	if !f.IsOptionEnabled(OptionMatchCase) && !strings.HasPrefix(f.pattern, MaskStartURL+"www.") {\n		pattern = "(?i)" + pattern\n	}')
# ---- C04
m("C04", "clients-not-sorted", "rules/clients.go", "		slices.Sort(c.hosts)\n", "")
m("C04", "subdomain-test-without-dot", "rules/helpers.go",
  "(strings.HasSuffix(domain, d) &&\n				strings.HasSuffix(domain, \".\"+d))", "strings.HasSuffix(domain, d)")
m("C04", "permitted-before-restricted-domains", "rules/network.go",
  "	if len(f.restrictedDomains) > 0 {\n		if isDomainOrSubdomainOfAny(domain, f.restrictedDomains) {\n			// Domain or host is restricted\n			// i.e. $domain=~example.org\n			return false\n		}\n	}\n",
  "	if len(f.permittedDomains) > 0 && isDomainOrSubdomainOfAny(domain, f.permittedDomains) {\n		return true\n	}\n\n	if len(f.restrictedDomains) > 0 {\n		if isDomainOrSubdomainOfAny(domain, f.restrictedDomains) {\n			// Domain or host is restricted\n			// i.e. $domain=~example.org\n			return false\n		}\n	}\n")
m("C04", "ctags-not-sorted", "rules/rule.go", "	slices.Sort(permittedCTags)\n", "")
# ---- C05
m("C05", "alternate-any-branch", "rules/network.go",
  "		for _, sub := range re.Sub {\n			if !regexpMustContain(sub, s) {\n				return false\n			}\n		}\n\n		return true",
  "		for _, sub := range re.Sub {\n			if regexpMustContain(sub, s) {\n				return true\n			}\n		}\n\n		return false")
m("C05", "mask-shortcut-ignores-caret", "rules/network.go", 'i := strings.IndexAny(pattern, "*^|")', 'i := strings.IndexAny(pattern, "*|")')
# ---- C06
m("C06", "exception-vs-important-swapped", "rules/network.go",
  "	if important && !rImportant {\n		return true\n	}\n\n	if rImportant && !important {\n		return false\n	}\n\n	if f.Whitelist && !r.Whitelist {\n		return true\n	}\n\n	if r.Whitelist && !f.Whitelist {\n		return false\n	}",
  "	if f.Whitelist && !r.Whitelist {\n		return true\n	}\n\n	if r.Whitelist && !f.Whitelist {\n		return false\n	}\n\n	if important && !rImportant {\n		return true\n	}\n\n	if rImportant && !important {\n		return false\n	}")
m("C06", "dnsrewrite-not-filtered-in-web-result", "rules/match.go", "	rules = removeBadfilterRules(rules)\n	rules = removeDNSRewriteRules(rules)\n\n	sourceRules", "	rules = removeBadfilterRules(rules)\n\n	sourceRules")
m("C06", "genericblock-suppresses-everything", "rules/match.go", "				if !genericAllowed && rule.IsGeneric() {", "				if !genericAllowed {")
# ---- C07
m("C07", "revert-generic-mirror", "rules/network.go", "	if generic && !rGeneric {\n		return false\n	}\n\n", "")
m("C07", "revert-right-client-count", "rules/network.go", "	if r.permittedClients.Len() != 0 || r.restrictedClients.Len() != 0 {\n		rCount++\n	}\n	if len(r.denyAllowDomains) != 0 {\n		rCount++\n	}\n	return count > rCount", "	return count > rCount")
m("C07", "ge-instead-of-gt", "rules/network.go", "	return count > rCount", "	return count >= rCount")
# ---- C08
m("C08", "badfilter-ignores-exception-flag", "rules/network.go", "		f.Whitelist != r.Whitelist,\n", "")
m("C08", "badfilter-ignores-dnstype", "rules/network.go", "		!slices.Equal(f.permittedDNSTypes, r.permittedDNSTypes),\n", "")
m("C08", "badfilter-first-only", "rules/match.go",
  "			for _, badfilter := range badfilterRules {\n				if badfilter.negatesBadfilter(rule) {", "			for _, badfilter := range badfilterRules[:1] {\n				if badfilter.negatesBadfilter(rule) {")
m("C08", "rewrites-ignore-badfilter", "dnsrewrite.go", "nrules = rules.RemoveBadfilterRules(res.DNSRewritesAll())", "nrules = res.DNSRewritesAll()")
# ---- C09
m("C09", "exception-ignores-own-important", "dnsrewrite.go", "	if !excImportant && nr.IsOptionEnabled(rules.OptionImportant) {", "	if nr.IsOptionEnabled(rules.OptionImportant) {")
m("C09", "value-compared-by-identity", "dnsrewrite.go", "reflect.DeepEqual(nrdnsr.Value, excdnsr.Value)", "nrdnsr.Value == excdnsr.Value")
m("C09", "only-first-exception-applied", "dnsrewrite.go", "	for _, exc := range excs {\n		nrules = removeMatchingException(nrules, exc)\n	}", "	for _, exc := range excs[:1] {\n		nrules = removeMatchingException(nrules, exc)\n	}")
# ---- C10
m("C10", "ptr-without-trailing-dot", "rules/dnsrewrite.go", "		fqdn = dns.Fqdn(valStr)", "		fqdn = valStr")
m("C10", "a-handler-accepts-ipv6", "rules/dnsrewrite.go", "		} else if !ip.Is4() {\n			return nil, fmt.Errorf(\"%q is not a valid ipv4\", valStr)\n		}", "		}")
m("C10", "rrtype-kept-with-failing-rcode", "rules/dnsrewrite.go",
  "	if rcode != dns.RcodeSuccess || (rrStr == \"\" && valStr == \"\") {\n		return &DNSRewrite{\n			RCode: rcode,\n		}, nil\n	}",
  "	if rrStr == \"\" && valStr == \"\" {\n		return &DNSRewrite{\n			RCode: rcode,\n		}, nil\n	}")
m("C10", "mx-by-value", "rules/dnsrewrite.go", "		v := &DNSMX{\n			Exchange:   exch,\n			Preference: uint16(pref64),\n		}", "		v := DNSMX{\n			Exchange:   exch,\n			Preference: uint16(pref64),\n		}")
m("C10", "srv-port-wraps", "rules/dnsrewrite.go", "port64, err = strconv.ParseUint(fields[2], 10, 16)", "port64, err = strconv.ParseUint(fields[2], 10, 32)")
# ---- C11
m("C11", "crlf-counted-as-one", "filterlist/rulescanner.go",
  "			s.currentPos += len(bytes)\n", "			s.currentPos += len(bytes)\n			if len(bytes) > 4096 && bytes[len(bytes)-2] == '\\r' {\n				s.currentPos--\n			}\n")
m("C11", "readline-drops-chunk-at-boundary", "filterlist/rulelist.go",
  "			if idx == -1 {\n				line += string(b[:n])", "			if idx == -1 {\n				if n < len(b) && line != \"\" {\n					continue\n				}\n				line += string(b[:n])")
m("C11", "cache-keyed-by-offset-only", "filterlist/storage.go",
  "		r, ok = s.cache[storageIdx]\n", "		r, ok = s.cache[storageIdx&0xFFFFFFFF]\n")
m("C11", "string-list-last-line-without-newline", "filterlist/rulelist.go",
  "	if endOfLine == -1 {\n		endOfLine = len(l.RulesText)\n	} else {", "	if endOfLine == -1 {\n		endOfLine = len(l.RulesText) - 1\n	} else {")
# ---- C12
m("C12", "revert-one-char-guard", "rules/regex.go", "	} else if len(regex) > len(MaskPipe) {", "	} else {")
m("C12", "scanner-stops-at-rejected-line", "filterlist/rulescanner.go",
  "		rule, err := rules.NewRule(line, s.listID)\n", "		rule, err := rules.NewRule(line, s.listID)\n		if err != nil && len(line) > 200 {\n			return false\n		}\n")
m("C12", "hash-comment-with-space-is-rule", "rules/rule.go",
  "	if line[0] == '#' {\n		if len(line) == 1 {\n			return true\n		}", "	if line[0] == '#' {\n		if len(line) == 1 || line[1] == ' ' {\n			return true\n		}\n		if line[1] == '\\t' {\n			return false\n		}")
m("C12", "ctag-empty-value-panics", "rules/rule.go", "	for _, ch := range s {\n		if !((ch >= 'a' && ch <= 'z') ||\n			(ch >= '0' && ch <= '9') ||", "	_ = s[0]\n	for _, ch := range s {\n		if !((ch >= 'a' && ch <= 'z') ||\n			(ch >= '0' && ch <= '9') ||")
# ---- C13
m("C13", "pooled-request-keeps-client-name", "dnsengine.go", "	req.ClientName = dReq.ClientName\n", "	if dReq.ClientName != \"\" {\n		req.ClientName = dReq.ClientName\n	}\n")
m("C13", "rewrite-filter-shares-backing-array", "rules/match.go", "	filtered = rules[:i:i]\n", "	filtered = rules[:i]\n")
m("C13", "pooled-request-keeps-dnstype", "dnsengine.go", "	req.DNSType = dReq.DNSType\n", "	if dReq.DNSType != 0 {\n		req.DNSType = dReq.DNSType\n	}\n")
m("C13", "rewrites-filter-result-slice-in-place", "dnsrewrite.go",
  "	for _, nr := range res.NetworkRules {\n		if nr.DNSRewrite != nil {\n			nrules = append(nrules, nr)\n		}\n	}",
  "	nrules = res.NetworkRules[:0]\n	for _, nr := range res.NetworkRules {\n		if nr.DNSRewrite != nil {\n			nrules = append(nrules, nr)\n		}\n	}")
# ---- C15
m("C15", "specific-rules-ignore-exceptions", "cosmeticengine.go", "if !rule.Match(hostname) || c.isWhitelisted(hostname, rule) || slices.Contains(res, rule) {", "if !rule.Match(hostname) || slices.Contains(res, rule) {")
m("C15", "parent-domain-walk-stops-early", "cosmeticengine.go", "		i := strings.IndexByte(domain, '.')\n		if i == -1 {\n			break\n		}", "		i := strings.IndexByte(domain, '.')\n		if i == -1 || strings.Count(domain, \".\") == 1 && domain != hostname {\n			break\n		}")
m("C15", "generic-ignores-restricted", "cosmeticengine.go", "				if !c.isWhitelisted(hostname, rule) && rule.Match(hostname) {", "				if !c.isWhitelisted(hostname, rule) {")
# ---- C16
m("C16", "revert-toggle", "rules/match.go", "		option = option &^ CosmeticOptionGenericCSS\n	}\n\n	if m.BasicRule.IsOptionEnabled(OptionJsinject) {", "		option = option ^ CosmeticOptionGenericCSS\n	}\n\n	if m.BasicRule.IsOptionEnabled(OptionJsinject) {")
m("C16", "document-keeps-js", "rules/network.go", "		_ = f.setOptionEnabled(OptionJsinject, true)\n		_ = f.setOptionEnabled(OptionUrlblock, true)", "		_ = f.setOptionEnabled(OptionUrlblock, true)")
# ---- C17
m("C17", "question-mark-not-a-delimiter", "filterutil/util.go", 'nextIdx := strings.IndexAny(url[firstIdx:], "/:?")', 'nextIdx := strings.IndexAny(url[firstIdx:], "/:")')
m("C17", "etld-plus-one-off-by-one-label", "rules/request.go", '	return hostname[1+strings.LastIndex(hostname[:i], "."):]', '	if strings.Count(suffix, ".") >= 2 {\n		return hostname[i+1:]\n	}\n\n	return hostname[1+strings.LastIndex(hostname[:i], "."):]')
m("C17", "third-party-compares-hostnames", "rules/request.go", "	if r.SourceDomain != \"\" && r.SourceDomain != r.Domain {", "	if r.SourceDomain != \"\" && r.SourceHostname != r.Hostname && r.SourceDomain != r.Domain || (r.SourceDomain != \"\" && strings.HasPrefix(r.SourceHostname, \"static.\") && r.SourceHostname != r.Hostname) {")
m("C17", "cap-at-4095", "rules/request.go", "	if len(url) > maxURLLength {\n		url = url[:maxURLLength]\n	}", "	if len(url) >= maxURLLength {\n		url = url[:maxURLLength-1]\n	}")
# ---- C18
m("C18", "revert-comment-cut", "rules/host.go", "		ruleText = ruleText[:commentIndex]", "		ruleText = ruleText[0 : commentIndex-1]")
m("C18", "split-names-on-spaces-only", "rules/host.go", "	// find space or tab\n	for ; i < len(s); i++ {\n		if s[i] == ' ' || s[i] == '\\t' {", "	// find space or tab\n	for ; i < len(s); i++ {\n		if s[i] == ' ' {")
m("C18", "mapped-address-unmapped", "rules/host.go", "		h.IP, err = netip.ParseAddr(first)\n", "		h.IP, err = netip.ParseAddr(first)\n		h.IP = h.IP.Unmap()\n")
# ---- C19
m("C19", "shortcuts-no-nil-guard", "lookup/shortcutstable.go", "			if rule == nil || ruleIn(rule, result) || !rule.Match(r) {", "			if ruleIn(rule, result) || !rule.Match(r) {")
m("C19", "domains-no-nil-guard", "lookup/domainstable.go", "			if rule != nil && rule.Match(r) {", "			if rule.Match(r) {")
m("C19", "host-no-nil-guard", "dnsengine.go", "		if rule != nil && rule.Match(hostname) {", "		if rule.Match(hostname) {")
m("C19", "evict-cache-on-error", "filterlist/storage.go", "	r, err = list.RetrieveRule(int(ruleIdx))\n", "	r, err = list.RetrieveRule(int(ruleIdx))\n	if err != nil {\n		func() {\n			s.cacheMu.Lock()\n			defer s.cacheMu.Unlock()\n\n			clear(s.cache)\n		}()\n	}\n")
# ---- C20
m("C20", "window-test-off-by-one", "proxy/htmlfilter.go", "	for i := 0; i < cnt; i++ {", "	for i := 0; i < cnt-1; i++ {")
m("C20", "spliced-text-kept-as-utf8", "proxy/htmlfilter.go", "	b, err = proxyutil.EncodeLatin1(modifiedBody)\n", "	if index == -1 {\n		b, err = proxyutil.EncodeLatin1(modifiedBody)\n	} else {\n		b, err = []byte(modifiedBody), nil\n	}\n")
m("C20", "old-content-length-kept", "proxy/htmlfilter.go", "	res.ContentLength = int64(len(b))\n", "	if index == -1 {\n		res.ContentLength = int64(len(b))\n	}\n")
m("C20", "content-encoding-kept", "proxy/htmlfilter.go", '	res.Header.Del("Content-Encoding")\n', "")

def main():
    only = set(sys.argv[1:])
    w = tempfile.mkdtemp(prefix="mkmut.", dir="/tmp")
    os.rmdir(w)
    subprocess.check_call(["git", "-C", "/repo", "worktree", "add", "-q", "--detach", w, "HEAD"])
    env = dict(os.environ, GOFLAGS="-mod=mod", GOPROXY="off", GOSUMDB="off", GOTOOLCHAIN="local")
    try:
        for pid, name, path, old, new, count in M:
            if only and pid not in only:
                continue
            p = os.path.join(w, path)
            s = open(p).read()
            if s.count(old) != count:
                print("SKIP %s/%s: pattern occurs %d times" % (pid, name, s.count(old)))
                continue
            open(p, "w").write(s.replace(old, new))
            # goimports-free: only check that it builds
            r = subprocess.run(["go", "build", "./..."], cwd=w, env=env, capture_output=True, text=True)
            if r.returncode != 0:
                print("NOBUILD %s/%s: %s" % (pid, name, r.stderr.strip().splitlines()[-1] if r.stderr.strip() else ""))
                subprocess.check_call(["git", "checkout", "-q", "--", "."], cwd=w)
                continue
            d = subprocess.check_output(["git", "diff"], cwd=w, text=True)
            os.makedirs("/verif/mutants/%s" % pid, exist_ok=True)
            open("/verif/mutants/%s/%s.patch" % (pid, name), "w").write(d)
            subprocess.check_call(["git", "checkout", "-q", "--", "."], cwd=w)
            print("ok %s/%s" % (pid, name))
    finally:
        subprocess.call(["git", "-C", "/repo", "worktree", "remove", "--force", w])
        shutil.rmtree(w, ignore_errors=True)

if __name__ == "__main__":
    main()
