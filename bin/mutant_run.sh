#!/bin/bash
# usage: bin/mutant_run.sh <patch-file | revert:<commit>> <ID>[,<ID>...] [tier]
# Applies a change to a scratch worktree of /repo (outside /repo and /verif),
# runs the named checks against it through VERIF_REPO, removes the worktree.
set -u
PATCH=$1; IDS=$2; TIER=${3:-quick}
W=$(mktemp -d /tmp/vmut.XXXXXX)
rmdir "$W"
git -C /repo worktree add -q --detach "$W" HEAD || exit 2
trap 'git -C /repo worktree remove --force "$W" >/dev/null 2>&1; rm -rf "$W"' EXIT
case "$PATCH" in
 revert:*) (cd "$W" && git revert --no-commit "${PATCH#revert:}" >/dev/null) || { echo "revert failed"; exit 2; } ;;
 *) (cd "$W" && git apply "$PATCH") || { echo "patch does not apply"; exit 2; } ;;
esac
if [ "${MUTANT_TESTS:-0}" = 1 ]; then
  (cd "$W" && GOFLAGS=-mod=mod GOPROXY=off GOSUMDB=off GOTOOLCHAIN=local go test -vet=off -count=1 ./... 2>&1 | grep -v "no test files" | sed 's/^/   suite: /')
fi
rc=0
for ID in ${IDS//,/ }; do
  out=$(VERIF_REPO="$W" /verif/check "$ID" "$TIER" 2>&1); r=$?
  nv=$(echo "$out" | grep -c '^VIOLATION')
  echo "== $PATCH -> $ID $TIER: exit=$r violations_lines=$nv"
  echo "$out" | grep -A2 '^VIOLATION' | head -${MUTANT_LINES:-6} | cut -c1-300
  echo "$out" | grep "verdict=" | cut -c1-200
done
# evidence/replays written by mutant runs are not evidence for the real tree
exit 0
