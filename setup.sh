#!/bin/bash
# Offline build / cache warm-up of the verification harness.
set -e
cd "$(dirname "$0")"
export GOFLAGS=-mod=mod GOPROXY=off GOSUMDB=off GOTOOLCHAIN=local
mkdir -p .work/bin evidence replays
cp /repo/go.sum harness/go.sum.repo 2>/dev/null && rm -f harness/go.sum.repo
(cd harness && go build -tags verif -o ../.work/bin/verifrun ./cmd/verifrun)
(cd harness && go build -tags verif -race -o ../.work/bin/verifrun-race ./cmd/verifrun)
echo "setup ok"
