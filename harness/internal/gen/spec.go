// Package gen contains the workload generators: structured rule and request
// specifications that are rendered to text for the code under test and
// evaluated as structures by the reference models.
package gen

import (
	"math/rand"
	"net/netip"
	"sort"
	"strconv"
	"strings"

	"github.com/AdguardTeam/urlfilter/rules"
)

// Val is a possibly negated modifier value.
type Val struct {
	Name string `json:"name"`
	Neg  bool   `json:"neg,omitempty"`
}

// Client is a $client value: Text is what is written in the rule, Name the
// client name it denotes (for names) and Prefix the network (for addresses).
type Client struct {
	Text   string       `json:"text"`
	Name   string       `json:"name,omitempty"`
	Prefix netip.Prefix `json:"prefix,omitempty"`
	IsNet  bool         `json:"is_net,omitempty"`
	Neg    bool         `json:"neg,omitempty"`
}

// Spec is a structured network rule.
type Spec struct {
	Exception  bool     `json:"exception,omitempty"`
	Pattern    string   `json:"pattern"`
	MatchCase  bool     `json:"match_case,omitempty"`
	ThirdParty int      `json:"third_party,omitempty"` // 1 third-party, -1 first-party
	Important  bool     `json:"important,omitempty"`
	Badfilter  bool     `json:"badfilter,omitempty"`
	TypesP     []string `json:"types_permitted,omitempty"`
	TypesR     []string `json:"types_restricted,omitempty"`
	Domains    []Val    `json:"domains,omitempty"`
	DenyAllow  []string `json:"denyallow,omitempty"`
	DNSTypes   []Val    `json:"dnstypes,omitempty"`
	CTags      []Val    `json:"ctags,omitempty"`
	Clients    []Client `json:"clients,omitempty"`
	DocOpts    []string `json:"doc_opts,omitempty"` // exception only
	Stealth    bool     `json:"stealth,omitempty"`  // exception only
	Popup      bool     `json:"popup,omitempty"`    // blocking only
	Empty      bool     `json:"empty,omitempty"`    // blocking only
	Mp4        bool     `json:"mp4,omitempty"`      // blocking only
	DNSRewrite *string  `json:"dnsrewrite,omitempty"`
	// Extra are modifiers written out as text: modifiers of the filter
	// syntax that this version of the library does not know (a rule carrying
	// one is rejected by its parser, until support for it is added).
	Extra []string `json:"extra,omitempty"`
}

// TypeNames maps content-type modifier names to request types.
var TypeNames = map[string]rules.RequestType{
	"script":         rules.TypeScript,
	"stylesheet":     rules.TypeStylesheet,
	"subdocument":    rules.TypeSubdocument,
	"object":         rules.TypeObject,
	"image":          rules.TypeImage,
	"xmlhttprequest": rules.TypeXmlhttprequest,
	"media":          rules.TypeMedia,
	"font":           rules.TypeFont,
	"websocket":      rules.TypeWebsocket,
	"ping":           rules.TypePing,
	"other":          rules.TypeOther,
}

// TypeList is the sorted list of content-type modifier names.
var TypeList = func() []string {
	var l []string
	for k := range TypeNames {
		l = append(l, k)
	}
	sort.Strings(l)

	return l
}()

// AllRequestTypes lists every request type.
var AllRequestTypes = []rules.RequestType{
	rules.TypeDocument, rules.TypeSubdocument, rules.TypeScript, rules.TypeStylesheet,
	rules.TypeObject, rules.TypeImage, rules.TypeXmlhttprequest, rules.TypeMedia,
	rules.TypeFont, rules.TypeWebsocket, rules.TypePing, rules.TypeOther,
}

// modifierTexts returns the modifiers of the spec as text fragments, one per
// modifier, value order as stored in the spec.
func (s *Spec) modifierTexts(rng *rand.Rand) (mods []string) {
	alias := func(a, b string) string {
		if rng != nil && rng.Intn(2) == 0 {
			return b
		}

		return a
	}
	switch s.ThirdParty {
	case 1:
		mods = append(mods, alias("third-party", "~first-party"))
	case -1:
		mods = append(mods, alias("~third-party", "first-party"))
	}
	if s.MatchCase {
		mods = append(mods, "match-case")
	}
	if s.Important {
		mods = append(mods, "important")
	}
	for _, t := range s.TypesP {
		mods = append(mods, t)
	}
	for _, t := range s.TypesR {
		mods = append(mods, "~"+t)
	}
	join := func(vs []Val) string {
		var parts []string
		for _, v := range vs {
			if v.Neg {
				parts = append(parts, "~"+v.Name)
			} else {
				parts = append(parts, v.Name)
			}
		}

		return strings.Join(parts, "|")
	}
	if len(s.Domains) > 0 {
		mods = append(mods, "domain="+join(s.Domains))
	}
	if len(s.DenyAllow) > 0 {
		mods = append(mods, "denyallow="+strings.Join(s.DenyAllow, "|"))
	}
	if len(s.DNSTypes) > 0 {
		mods = append(mods, "dnstype="+join(s.DNSTypes))
	}
	if len(s.CTags) > 0 {
		mods = append(mods, "ctag="+join(s.CTags))
	}
	if len(s.Clients) > 0 {
		var parts []string
		for _, cl := range s.Clients {
			if cl.Neg {
				parts = append(parts, "~"+cl.Text)
			} else {
				parts = append(parts, cl.Text)
			}
		}
		mods = append(mods, "client="+strings.Join(parts, "|"))
	}
	mods = append(mods, s.DocOpts...)
	if s.Stealth {
		mods = append(mods, "stealth")
	}
	if s.Popup {
		mods = append(mods, "popup")
	}
	if s.Empty {
		mods = append(mods, "empty")
	}
	if s.Mp4 {
		mods = append(mods, "mp4")
	}
	mods = append(mods, s.Extra...)
	if s.DNSRewrite != nil {
		if *s.DNSRewrite == "" {
			mods = append(mods, "dnsrewrite")
		} else {
			mods = append(mods, "dnsrewrite="+*s.DNSRewrite)
		}
	}

	return mods
}

// Render renders the rule text.  With a non-nil rng the order of modifiers
// and the choice between alias spellings are random; the order of values
// inside a modifier is the one stored in the spec.  Badfilter is placed at a
// random position as well.
func (s *Spec) Render(rng *rand.Rand) string {
	mods := s.modifierTexts(rng)
	if s.Badfilter {
		mods = append(mods, "badfilter")
	}
	if rng != nil {
		rng.Shuffle(len(mods), func(i, j int) { mods[i], mods[j] = mods[j], mods[i] })
		// An empty component (doubled or trailing comma) is legal and inert.
		if len(mods) > 0 && rng.Intn(30) == 0 {
			i := 1 + rng.Intn(len(mods))
			mods = append(mods[:i], append([]string{""}, mods[i:]...)...)
		}
	}
	var sb strings.Builder
	if s.Exception {
		sb.WriteString("@@")
	}
	pat := s.Pattern
	if rng != nil && len(pat) > 2 && strings.HasSuffix(pat, "^") && rng.Intn(16) == 0 {
		// "example.org/*" is the documented alternative spelling of
		// "example.org^" (the parser rewrites it); both are the same rule.
		pat = pat[:len(pat)-1] + "/*"
	}
	sb.WriteString(pat)
	if len(mods) > 0 {
		sb.WriteByte('$')
		sb.WriteString(strings.Join(mods, ","))
	}

	return sb.String()
}

// Clone returns a deep copy.
func (s *Spec) Clone() *Spec {
	c := *s
	c.TypesP = append([]string(nil), s.TypesP...)
	c.TypesR = append([]string(nil), s.TypesR...)
	c.Domains = append([]Val(nil), s.Domains...)
	c.DenyAllow = append([]string(nil), s.DenyAllow...)
	c.DNSTypes = append([]Val(nil), s.DNSTypes...)
	c.CTags = append([]Val(nil), s.CTags...)
	c.Clients = append([]Client(nil), s.Clients...)
	c.DocOpts = append([]string(nil), s.DocOpts...)
	c.Extra = append([]string(nil), s.Extra...)
	if s.DNSRewrite != nil {
		v := *s.DNSRewrite
		c.DNSRewrite = &v
	}

	return &c
}

// HasRestriction tells whether the spec carries one of the modifiers that make
// a too-wide pattern acceptable to the parser.
func (s *Spec) HasRestriction() bool {
	return len(s.Domains) > 0 || len(s.DenyAllow) > 0 || len(s.DNSTypes) > 0 || len(s.CTags) > 0 || len(s.Clients) > 0
}

// IsRegex tells whether the pattern is a regular-expression pattern.
func (s *Spec) IsRegex() bool {
	p := s.Pattern

	return len(p) > 1 && p[0] == '/' && p[len(p)-1] == '/'
}

// Req is a structured request.
type Req struct {
	HostnameReq bool              `json:"hostname_request,omitempty"`
	URL         string            `json:"url,omitempty"`
	Source      string            `json:"source,omitempty"`
	Type        rules.RequestType `json:"type,omitempty"`
	Host        string            `json:"host,omitempty"`
	DNSType     uint16            `json:"dnstype,omitempty"`
	ClientName  string            `json:"client_name,omitempty"`
	ClientIP    netip.Addr        `json:"client_ip,omitempty"`
	Tags        []string          `json:"tags,omitempty"`
}

// Build creates the request object through the public constructors.
func (q *Req) Build() *rules.Request {
	var r *rules.Request
	if q.HostnameReq {
		r = rules.NewRequestForHostname(q.Host)
	} else {
		r = rules.NewRequest(q.URL, q.Source, q.Type)
	}
	r.DNSType = q.DNSType
	r.ClientName = q.ClientName
	r.ClientIP = q.ClientIP
	r.SortedClientTags = q.Tags

	return r
}

// Key returns a string identifying the request.
func (q *Req) Key() string {
	var sb strings.Builder
	if q.HostnameReq {
		sb.WriteString("H:" + q.Host)
	} else {
		sb.WriteString("U:" + q.URL + "|" + q.Source + "|")
		sb.WriteString(string(rune('A' + bitIndex(uint32(q.Type)))))
	}
	sb.WriteString("|" + q.ClientName + "|")
	if q.ClientIP.IsValid() {
		sb.WriteString(q.ClientIP.String())
	}
	sb.WriteString("|" + strings.Join(q.Tags, ","))
	sb.WriteString("|" + strconv.Itoa(int(q.DNSType)))

	return sb.String()
}

func bitIndex(v uint32) int {
	for i := 0; i < 32; i++ {
		if v&(1<<i) != 0 {
			return i
		}
	}

	return 31
}

// CanonKey identifies the rule a spec denotes, independent of how it is
// written: modifier order, the order of content types and document-level
// options, the letter case of record type names, the order and spelling of
// tags and clients (the library sorts those) and content types included next
// to a document-level option (which replaces them) do not matter; the order of
// $domain and $denyallow values does (the library compares them as lists).
func (s *Spec) CanonKey() string {
	c := s.Clone()
	sort.Strings(c.TypesP)
	sort.Strings(c.TypesR)
	// "$document" is shorthand for five document-level options.
	var docs []string
	for _, o := range c.DocOpts {
		if o == "document" {
			docs = append(docs, "elemhide", "jsinject", "urlblock", "content", "extension")
		} else {
			docs = append(docs, o)
		}
	}
	c.DocOpts = docs
	sort.Strings(c.DocOpts)
	c.DocOpts = dedupSorted(c.DocOpts)
	c.TypesP = dedupSorted(c.TypesP)
	c.TypesR = dedupSorted(c.TypesR)
	if len(c.DocOpts) > 0 || c.Popup {
		// Document-level options and $popup replace the set of included
		// content types by {document}: "$urlblock,ping" IS "$urlblock".
		c.TypesP = nil
	}
	for i := range c.DNSTypes {
		c.DNSTypes[i].Name = strings.ToUpper(c.DNSTypes[i].Name)
	}
	sort.Slice(c.CTags, func(i, j int) bool {
		if c.CTags[i].Neg != c.CTags[j].Neg {
			return !c.CTags[i].Neg
		}

		return c.CTags[i].Name < c.CTags[j].Name
	})
	for i := range c.Clients {
		if c.Clients[i].IsNet {
			c.Clients[i].Text = c.Clients[i].Prefix.String()
		} else {
			c.Clients[i].Text = "name:" + c.Clients[i].Name
		}
	}
	sort.Slice(c.Clients, func(i, j int) bool {
		if c.Clients[i].Neg != c.Clients[j].Neg {
			return !c.Clients[i].Neg
		}

		return c.Clients[i].Text < c.Clients[j].Text
	})

	return c.Render(nil)
}

func dedupSorted(in []string) (out []string) {
	for i, v := range in {
		if i == 0 || v != in[i-1] {
			out = append(out, v)
		}
	}

	return out
}
