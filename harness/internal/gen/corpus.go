package gen

import (
	"archive/zip"
	"bufio"
	_ "embed"
	"encoding/json"
	"io"
	"os"
	"path/filepath"
	"strings"
	"sync"
)

// Corpus holds the real-world data bundled with the repository (read-only).
type Corpus struct {
	Hosts    []string    // host names of testdata/hosts
	Requests []CorpusReq // testdata/requests.json
}

// CorpusReq is one line of requests.json.
type CorpusReq struct {
	FrameURL string `json:"frameUrl"`
	URL      string `json:"url"`
	Cpt      string `json:"cpt"`
}

var (
	corpus     *Corpus
	corpusOnce sync.Once
)

// LoadCorpus loads the corpora once per process.
func LoadCorpus(repoDir string) *Corpus {
	corpusOnce.Do(func() {
		corpus = &Corpus{}
		if f, err := os.Open(filepath.Join(repoDir, "testdata", "hosts")); err == nil {
			sc := bufio.NewScanner(f)
			for sc.Scan() {
				l := strings.TrimSpace(sc.Text())
				if l == "" || l[0] == '#' {
					continue
				}
				fs := strings.Fields(l)
				if len(fs) >= 2 {
					corpus.Hosts = append(corpus.Hosts, fs[1])
				}
			}
			_ = f.Close()
		}
		// requests.json is unpacked from requests.json.zip by the repository's
		// own tests and is not tracked by git; read the archive when the
		// unpacked file is absent (scratch worktrees).
		var rd io.ReadCloser
		if f, err := os.Open(filepath.Join(repoDir, "testdata", "requests.json")); err == nil {
			rd = f
		} else if zr, zerr := zip.OpenReader(filepath.Join(repoDir, "testdata", "requests.json.zip")); zerr == nil {
			for _, zf := range zr.File {
				if strings.HasSuffix(zf.Name, "requests.json") {
					rd, _ = zf.Open()
				}
			}
		}
		if rd != nil {
			sc := bufio.NewScanner(rd)
			sc.Buffer(make([]byte, 1<<20), 1<<26)
			for sc.Scan() {
				var r CorpusReq
				if json.Unmarshal(sc.Bytes(), &r) == nil && r.URL != "" {
					corpus.Requests = append(corpus.Requests, r)
				}
			}
			_ = rd.Close()
		}
	})

	return corpus
}

// ReadLines returns the lines of a repository file.
func ReadLines(repoDir, rel string) []string {
	b, err := os.ReadFile(filepath.Join(repoDir, rel))
	if err != nil {
		return nil
	}

	return strings.Split(strings.ReplaceAll(string(b), "\r\n", "\n"), "\n")
}

// PSLSuffixes are public suffixes of every class of the Public Suffix List:
// plain ICANN, multi-level, wildcard rules with exceptions, private suffixes
// and names that are not listed at all.
var PSLSuffixes = []string{
	"com", "org", "net", "io", "de", "uk", "co.uk", "org.uk", "jp", "kawasaki.jp", "kobe.jp", "tokyo.jp",
	"ck", "bd", "er", "mm", "com.bd", "co.ck", "au", "com.au", "nsw.edu.au", "br", "com.br", "us", "k12.ca.us",
	"blogspot.com", "github.io", "s3.amazonaws.com", "compute.amazonaws.com", "appspot.com", "herokuapp.com",
	"cloudfront.net", "co.com", "xn--p1ai", "xn--fiqs8s", "zzzz", "local", "internal", "lan", "example",
}

// PSLHosts returns host names around every suffix class.
func PSLHosts() (out []string) {
	for _, s := range PSLSuffixes {
		out = append(out, s, "a."+s, "b.a."+s, "c.b.a."+s, "www."+s, "city."+s, "x.city."+s, "www.www."+s)
	}

	return out
}

// PadToStraddle inserts comment lines so that a few randomly chosen rule lines
// straddle a 4 KiB block boundary (LF line ends): the list becomes longer than
// the read block of the file-backed list and the straddling lines are read in
// two pieces.
func PadToStraddle(rng interface{ Intn(int) int }, lines []string, times int) []string {
	out := append([]string(nil), lines...)
	for t := 0; t < times; t++ {
		var cand []int
		off := 0
		offs := make([]int, len(out))
		for i, l := range out {
			offs[i] = off
			off += len(l) + 1
			if len(l) > 3 && l[0] != '!' && l[0] != '#' {
				cand = append(cand, i)
			}
		}
		if len(cand) == 0 {
			return out
		}
		i := cand[rng.Intn(len(cand))]
		k := 1 + rng.Intn(len(out[i])-1)
		b := 4096
		for b-k-offs[i] < 3 {
			b += 4096
		}
		p := b - k - offs[i]
		pad := "! " + strings.Repeat("-", p-3)
		out = append(out[:i], append([]string{pad}, out[i:]...)...)
	}

	return out
}

//go:embed psl_rules.txt
var pslRulesText string

// PSLRules returns every rule of the Public Suffix List as compiled into
// golang.org/x/net/publicsuffix (the list its table test checks the table
// against): plain, wildcard ("*.ck") and exception ("!www.ck") rules.
func PSLRules() []string {
	return strings.Split(strings.TrimSpace(pslRulesText), "\n")
}
