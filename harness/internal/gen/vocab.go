package gen

import (
	"math/rand"
	"net/netip"
	"sort"
	"strconv"
	"strings"

	"github.com/AdguardTeam/urlfilter/rules"
)

// Hosts is the small hostile universe of host names: confusable pairs,
// label-boundary neighbours and every class of public suffix.
var Hosts = []string{
	"a.com", "b.a.com", "c.b.a.com", "xa.com", "a.com.evil.org", "evil.org", "a.org", "b.a.org",
	"a.co.uk", "b.a.co.uk", "a.uk", "xa.co.uk",
	"google.com", "www.google.com", "google.co.uk", "www.google.de", "xgoogle.com",
	"google.evil.xgoogle.com", "google.com.evil.org", "google.zzzz", "google.localhost",
	"ads.net", "x.ads.net", "ads.example.com", "example.com", "example.org", "sub.example.org",
	"tracker.io", "cdn.tracker.io",
	"www.ck", "x.www.ck", "y.x.ck", "city.kawasaki.jp", "x.city.kawasaki.jp", "x.y.kawasaki.jp",
	"a.blogspot.com", "b.a.blogspot.com",
	"localhost", "intranet", "1.2.3.4", "10.0.0.1",
	// Real domain names that consist of hexadecimal characters only (they look
	// like addresses to a character-class pre-filter).
	"bce.ca", "abc.de", "fe.abc.de", "feed.cafe", "dead.beef", "ad.fad.dad.de",
	// Names on which a character-class pre-check and the address parser
	// disagree, and non-ASCII host names.
	"1.2.3", "1.2.3.4.5", "abc", "12", "fe80", "bücher.example", "пример.рф",
	// Names with many labels (walks over parent domains have no small bound).
	"a.b.c.d.e.f.g.h.i.j.k.l.example.org", DeepHost,
	"myshop.example", "news.example.org",
	// Names in which a five-byte window repeats with overlap.
	"aaaaaa.example", "xyzxyzxy.com", "wwwwww.ads.net",
	// A label of the maximum length of 63 characters.
	Label63 + ".com", "x." + Label63 + ".a.com",
}

// DeepHost is a name of 40 labels below a.com.
var DeepHost = strings.Repeat("x.", 38) + "a.com"

// Host253 is a host name of the maximum legal length of 253 bytes (three
// labels of 63, one of 57 and "com"); Host252 is one byte shorter.
var (
	Host253 = Label63 + "." + Label63 + "." + Label63 + "." + Label63[:57] + ".com"
	Host252 = Host253[1:]
)

// Label63 is a host name label of the maximum legal length.
const Label63 = "a23456789-b23456789-c23456789-d23456789-e23456789-f23456789-xyz"

// DomainValues are values for $domain and $denyallow.
var DomainValues = []string{
	"a.com", "b.a.com", "a.org", "a.co.uk", "evil.org", "google.com", "google.co.uk", "google.*", "a.*",
	"xgoogle.*", "ads.net", "example.com", "example.org", "sub.example.org", "tracker.io",
	"www.ck", "kawasaki.jp", "city.kawasaki.jp", "co.uk", "com", "localhost", "example.*", "www.google.*", "b.a.*", "ads.example.*", "abc.de", "cafe",
	"a.b.c.d.e.f.g.h.i.j.k.l.example.org", "h.i.j.k.l.example.org", DeepHost,
	// Values that end in another value of the vocabulary without being below it.
	"xa.com", "xgoogle.com", "xa.co.uk", "vil.org", "le.org",
	// Values written with capital letters (compared as written).
	"MyShop.example", "News.Example.org",
}

// DenyAllowValues are values for $denyallow (no wildcard: the statement does
// not define it there).
var DenyAllowValues = []string{
	"a.com", "b.a.com", "a.org", "a.co.uk", "evil.org", "google.com", "ads.net", "example.com",
	"example.org", "tracker.io", "co.uk", "com", "localhost", "abc.de", "cafe", "bce.ca",
}

// Paths are URL tails.
var Paths = []string{
	"", "/", "/ads/banner.js", "/ads/ADS.JS", "/path/to/img.png?q=1&u=http://a.com/", "/banner",
	"/x?ads=1", "/abcde", "/ababababab", "/a", "?q=ads", "/ads", "/path/ads/", "/Ads/Banner.JS",
	":8080/ads/banner.js", "/adsbanner", "/ads.banner", "/ads%20banner", "/ads_banner-1", "/ads/bännér.js", "/реклама/ads", "/ads/İstanbul",
	"/track/pixel.gif", "/track", "/tracker/track/track",
}

// Schemes for URL requests.
var Schemes = []string{"http", "https", "ws", "wss", "ftp"}

// PatternTemplates are mask patterns; HOST is replaced by a host name.
var PatternTemplates = []string{
	"||HOST^", "||HOST", "||HOST/", "||HOST/ads", "||HOST^*banner", "|http://HOST/", "|https://HOST", "HOST", "https://HOST^", "https://HOST", "http://HOST^", "https://*.HOST^", "wss://HOST^", "://HOST^",
	"HOST/ads", "://HOST", "http://HOST", "||HOST/*", "||HOST^$", ".HOST^", "||HOST:8080^",
	"/ads/banner", "ads", "/ads^", "banner.js|", ".js|", "?q=", "=http", "/path/*/img", "^ads^", "*ads*",
	"/Ads/b", "ADS.JS", "/abcde", "ababa", "babab", "/banner|", "|ws://", "|http", "://", "^", "*", "|", "||", "",
	"/track", "/track/*.gif", "pixel.gif|", "ads_banner", "ads%20", "/ads.", "/ad_s.", "/a*s.", "js", "a", "/x?ads=1", "/HOST.", "/price\\$tag", "||HOST/cart\\$total^", "ads\\$", "\\$ads", "||HOST/a|b", "/ads/track.gif?a|b", "a.b|c", "/x.y.z|ads",
	// Runs of wildcards and wildcards next to other operators.
	"/bännér", "реклама", "||HOST/реклама^", "İstanbul", "||HOST/**", "/ads/***", "||HOST^**", "ads**banner", "**ads", "||HOST/*/*", "*/ads/*", "|*ads", "ads*|", "^*^", "/banner**|",
	// Three and more literal runs of different lengths in every order.
	"||HOST^ad*/banner_long", "||HOST^*/ads/*/banner.js", "/adserver/*/show^*&zone=", "/a*bcd*efghijk", "/abcdefg*hi*jklm", "ab*cdefgh*ij^klmno", "||HOST^x*yz*banner.gif|", "/ads/*^x*track_pixel_long",
}

// ClientNames are $client names with their textual forms.
var ClientNames = []Client{
	{Text: "Mom", Name: "Mom"},
	{Text: "kids", Name: "kids"},
	{Text: "dead", Name: "dead"},
	{Text: "cafe", Name: "cafe"},
	{Text: `'Frank\'s laptop'`, Name: "Frank's laptop"},
	{Text: `"Frank's phone"`, Name: "Frank's phone"},
	{Text: `'Mary\'s\, John\'s\, and Boris\'s laptops'`, Name: "Mary's, John's, and Boris's laptops"},
	{Text: `"a\|b"`, Name: "a|b"},
	{Text: `'the \'boss\''`, Name: "the 'boss'"},
	{Text: `"say \"hi\""`, Name: `say "hi"`},
	{Text: "Zed", Name: "Zed"},
	{Text: "alice-pc", Name: "alice-pc"},
	{Text: "Bob", Name: "Bob"},
	// Names that contain a slash without being an address prefix.
	{Text: "kids/tablet", Name: "kids/tablet"},
	{Text: "10.0.0.0/33", Name: "10.0.0.0/33"},
	// Other spellings of names listed above.
	{Text: `"Mom"`, Name: "Mom"},
	{Text: `'kids'`, Name: "kids"},
	{Text: `'Bob'`, Name: "Bob"},
}

func mustPrefix(s string) netip.Prefix {
	if strings.Contains(s, "/") {
		return netip.MustParsePrefix(s).Masked()
	}
	a := netip.MustParseAddr(s)

	return netip.PrefixFrom(a, a.BitLen())
}

// ClientNets are $client addresses and networks.
var ClientNets = func() []Client {
	var out []Client
	for _, s := range []string{
		"127.0.0.1", "192.168.3.0/24", "192.168.3.7", "10.0.0.0/8", "10.1.0.0/16", "::1", "fe01::/64",
		"fe01::1", "2001:db8::/32", "1.2.3.4", "192.168.0.0/16", "0.0.0.0/0", "172.16.0.1", "::ffff:0:0/96", "::ffff:192.168.3.7",
	} {
		out = append(out, Client{Text: s, Prefix: mustPrefix(s), IsNet: true})
	}

	return out
}()

// ClientIPs are request client addresses.
var ClientIPs = []netip.Addr{
	{}, netip.MustParseAddr("127.0.0.1"), netip.MustParseAddr("192.168.3.7"), netip.MustParseAddr("192.168.4.1"),
	netip.MustParseAddr("10.1.2.3"), netip.MustParseAddr("10.200.0.1"), netip.MustParseAddr("::1"),
	netip.MustParseAddr("fe01::1"), netip.MustParseAddr("fe01:0:0:1::1"), netip.MustParseAddr("2001:db8::5"),
	netip.MustParseAddr("1.2.3.4"), netip.MustParseAddr("8.8.8.8"), netip.MustParseAddr("172.16.0.1"),
	// IPv4-mapped IPv6 spellings of addresses above (another address family).
	netip.MustParseAddr("::ffff:192.168.3.7"), netip.MustParseAddr("::ffff:10.1.2.3"), netip.MustParseAddr("::ffff:1.2.3.4"),
}

// RequestClientNames are request client names.
var RequestClientNames = []string{
	"", "Mom", "kids", "dead", "cafe", "Frank's laptop", "Frank's phone",
	"Mary's, John's, and Boris's laptops", "a|b", "Zed", "alice-pc", "Bob", "mom", "Dad", "kids/tablet", "10.0.0.0/33", "the 'boss'", `say "hi"`, `the 'boss\`,
}

// CTagValues are client tags.
var CTagValues = []string{"device_pc", "device_phone", "user_child", "user_admin", "os_linux", "a", "b", "z_last", "0first"}

// DNSTypeNames are record type names with their numbers.
var DNSTypeNames = map[string]uint16{"A": 1, "AAAA": 28, "CNAME": 5, "MX": 15, "TXT": 16, "HTTPS": 65, "PTR": 12, "SRV": 33, "SVCB": 64, "NS": 2, "CAA": 257, "ANY": 255, "DS": 43, "TLSA": 52}

// DNSTypeList is the sorted list of DNSTypeNames keys.
var DNSTypeList = func() []string {
	var l []string
	for k := range DNSTypeNames {
		l = append(l, k)
	}
	sort.Strings(l)

	return l
}()

// ModKinds names the modifier kinds RandomSpec can attach.
type ModKinds struct {
	ThirdParty, Types, Domain, DenyAllow, DNSType, CTag, Client, MatchCase, Important bool
}

// AllMods enables every kind.
var AllMods = ModKinds{true, true, true, true, true, true, true, true, true}

func pickN[T any](rng *rand.Rand, pool []T, n int) []T {
	idx := rng.Perm(len(pool))
	if n > len(pool) {
		n = len(pool)
	}
	out := make([]T, n)
	for i := 0; i < n; i++ {
		out[i] = pool[idx[i]]
	}

	return out
}

// RandCase flips the letter case of a modifier-irrelevant string.
func randCaseName(rng *rand.Rand, s string) string {
	if rng.Intn(4) != 0 {
		return s
	}

	return strings.ToLower(s)
}

// RandomPattern returns a mask pattern.
func RandomPattern(rng *rand.Rand) string {
	t := PatternTemplates[rng.Intn(len(PatternTemplates))]
	if strings.Contains(t, "HOST") {
		t = strings.ReplaceAll(t, "HOST", Hosts[rng.Intn(len(Hosts))])
	}

	return t
}

// AddRandomMods attaches modifiers of the enabled kinds, each with
// probability p, 1..6 values each in random order.
func AddRandomMods(rng *rand.Rand, s *Spec, k ModKinds, p float64) {
	on := func(b bool) bool { return b && rng.Float64() < p }
	if on(k.ThirdParty) {
		s.ThirdParty = 1 - 2*rng.Intn(2)
	}
	if on(k.MatchCase) {
		s.MatchCase = true
	}
	if on(k.Important) {
		s.Important = true
	}
	if on(k.Types) {
		n := 1 + rng.Intn(4)
		ts := pickN(rng, TypeList, n)
		for _, t := range ts {
			if rng.Intn(3) == 0 {
				s.TypesR = append(s.TypesR, t)
			} else {
				s.TypesP = append(s.TypesP, t)
			}
		}
	}
	if len(s.TypesP) > 0 && rng.Intn(10) == 0 {
		// A content type may legally be both included and excluded (the
		// exclusion wins); sometimes that goes for every included type.
		if rng.Intn(2) == 0 {
			s.TypesR = append(s.TypesR, s.TypesP...)
		} else {
			s.TypesR = append(s.TypesR, s.TypesP[rng.Intn(len(s.TypesP))])
		}
	}
	if on(k.Domain) {
		for _, d := range pickN(rng, DomainValues, 1+rng.Intn(6)) {
			s.Domains = append(s.Domains, Val{Name: d, Neg: rng.Intn(3) == 0})
		}
	}
	if on(k.DenyAllow) {
		s.DenyAllow = pickN(rng, DenyAllowValues, 1+rng.Intn(4))
	}
	if on(k.DNSType) {
		for _, d := range pickN(rng, DNSTypeList, 1+rng.Intn(4)) {
			name := d
			if rng.Intn(3) == 0 {
				name = strings.ToLower(d)
			}
			s.DNSTypes = append(s.DNSTypes, Val{Name: name, Neg: rng.Intn(3) == 0})
		}
	}
	if on(k.CTag) {
		for _, d := range pickN(rng, CTagValues, 1+rng.Intn(6)) {
			s.CTags = append(s.CTags, Val{Name: d, Neg: rng.Intn(3) == 0})
		}
	}
	// A value may legally be listed twice.
	if rng.Intn(12) == 0 && len(s.Domains) > 0 {
		s.Domains = append(s.Domains, s.Domains[rng.Intn(len(s.Domains))])
	}
	if rng.Intn(12) == 0 && len(s.CTags) > 0 {
		s.CTags = append(s.CTags, s.CTags[rng.Intn(len(s.CTags))])
	}
	if rng.Intn(12) == 0 && len(s.DNSTypes) > 0 {
		s.DNSTypes = append(s.DNSTypes, s.DNSTypes[rng.Intn(len(s.DNSTypes))])
	}
	if rng.Intn(12) == 0 && len(s.DenyAllow) > 0 {
		s.DenyAllow = append(s.DenyAllow, s.DenyAllow[rng.Intn(len(s.DenyAllow))])
	}
	padLists(rng, s)
	if on(k.Client) {
		n := 1 + rng.Intn(6)
		for i := 0; i < n; i++ {
			var cl Client
			if rng.Intn(2) == 0 {
				cl = ClientNames[rng.Intn(len(ClientNames))]
			} else {
				cl = ClientNets[rng.Intn(len(ClientNets))]
			}
			cl.Neg = rng.Intn(3) == 0
			// The same client may be listed twice (also in another spelling).
			s.Clients = append(s.Clients, cl)
			if rng.Intn(8) == 0 {
				s.Clients = append(s.Clients, cl)
			}
		}
	}
}

// padLists occasionally makes a value list long (15..80 or 230..330 entries, well above any
// small-list special case) with filler values that no request uses, in the
// polarity that leaves the rule's meaning for the vocabulary unchanged, at
// random positions.
func padLists(rng *rand.Rand, s *Spec) {
	insert := func(n int, at func(i int)) {
		for i := 0; i < n; i++ {
			at(i)
		}
	}
	hasPermitted := func(vs []Val) bool {
		for _, v := range vs {
			if !v.Neg {
				return true
			}
		}

		return false
	}
	// One padded list in four is longer than the 4 KiB read buffer of a
	// file-backed list (the whole rule line is).
	many := func() int {
		if rng.Intn(4) == 0 {
			return 230 + rng.Intn(100)
		}

		return 15 + rng.Intn(66)
	}
	if len(s.Domains) > 0 && rng.Intn(25) == 0 {
		perm := hasPermitted(s.Domains)
		insert(many(), func(i int) {
			v := Val{Name: "f" + strconv.Itoa(i) + ".filler.example", Neg: !perm}
			j := rng.Intn(len(s.Domains) + 1)
			s.Domains = append(s.Domains[:j], append([]Val{v}, s.Domains[j:]...)...)
		})
	}
	if len(s.DenyAllow) > 0 && rng.Intn(25) == 0 {
		insert(many(), func(i int) {
			j := rng.Intn(len(s.DenyAllow) + 1)
			s.DenyAllow = append(s.DenyAllow[:j], append([]string{"f" + strconv.Itoa(i) + ".filler.example"}, s.DenyAllow[j:]...)...)
		})
	}
	if len(s.CTags) > 0 && rng.Intn(25) == 0 {
		perm := hasPermitted(s.CTags)
		insert(15+rng.Intn(66), func(i int) {
			v := Val{Name: "filler_tag_" + strconv.Itoa(i), Neg: !perm}
			j := rng.Intn(len(s.CTags) + 1)
			s.CTags = append(s.CTags[:j], append([]Val{v}, s.CTags[j:]...)...)
		})
	}
}

// RandomURL returns a URL from the vocabulary.
func RandomURL(rng *rand.Rand) string {
	h := Hosts[rng.Intn(len(Hosts))]

	return Schemes[rng.Intn(len(Schemes))] + "://" + h + Paths[rng.Intn(len(Paths))]
}

// RandomReq returns a request from the vocabulary.  hostnameProb is the
// probability of a hostname request.
func RandomReq(rng *rand.Rand, hostnameProb float64) *Req {
	q := &Req{}
	if rng.Float64() < hostnameProb {
		q.HostnameReq = true
		q.Host = Hosts[rng.Intn(len(Hosts))]
		if rng.Intn(3) > 0 {
			q.DNSType = DNSTypeNames[DNSTypeList[rng.Intn(len(DNSTypeList))]]
		}
	} else {
		q.URL = RandomURL(rng)
		switch rng.Intn(5) {
		case 0:
		case 1:
			// Same host as source.
			q.Source = "https://" + hostOfURL(q.URL) + "/page"
		default:
			q.Source = "http://" + Hosts[rng.Intn(len(Hosts))] + "/index.html"
		}
		q.Type = AllRequestTypes[rng.Intn(len(AllRequestTypes))]
		if rng.Intn(6) == 0 {
			q.DNSType = DNSTypeNames[DNSTypeList[rng.Intn(len(DNSTypeList))]]
		}
	}
	if q.DNSType != 0 && rng.Intn(10) == 0 {
		// Query types beyond the well-known ones: CAA, the first value of the
		// second 512-block, TA, DLV, private use, the largest value.
		q.DNSType = []uint16{257, 255, 512, 32768, 32769, 65280, 65534, 65535, 249}[rng.Intn(9)]
	}
	if rng.Intn(2) == 0 {
		q.ClientName = RequestClientNames[rng.Intn(len(RequestClientNames))]
	}
	if rng.Intn(2) == 0 {
		q.ClientIP = ClientIPs[rng.Intn(len(ClientIPs))]
	}
	if rng.Intn(2) == 0 {
		tags := pickN(rng, CTagValues, rng.Intn(4))
		sort.Strings(tags)
		q.Tags = tags
	}

	return q
}

func hostOfURL(u string) string {
	i := strings.Index(u, "://")
	if i < 0 {
		return ""
	}
	rest := u[i+3:]
	if j := strings.IndexAny(rest, "/:?"); j >= 0 {
		rest = rest[:j]
	}

	return rest
}

// RequestTypeName returns the name of a request type for witnesses.
func RequestTypeName(t rules.RequestType) string {
	for n, v := range TypeNames {
		if v == t {
			return n
		}
	}
	if t == rules.TypeDocument {
		return "document"
	}

	return "?"
}
