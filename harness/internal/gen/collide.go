package gen

import (
	"sync"

	"github.com/AdguardTeam/urlfilter/filterutil"
)

// Collision families for filterutil.FastHash: groups of distinct strings with
// the same 32-bit hash, found by searching two-character tails.

var (
	collideOnce sync.Once
	// WindowGroups are groups of colliding 5-byte windows ("adsXY").
	WindowGroups [][]string
	// HostGroups are groups of colliding host names ("hXY.com").
	HostGroups [][]string
	// DomainGroups are groups of colliding $domain values ("dXY.org").
	DomainGroups [][]string
)

const collideAlphabet = "abcdefghijklmnopqrstuvwxyz0123456789"

func findGroups(make func(a, b byte) string) (groups [][]string) {
	byHash := map[uint32][]string{}
	for i := 0; i < len(collideAlphabet); i++ {
		for j := 0; j < len(collideAlphabet); j++ {
			s := make(collideAlphabet[i], collideAlphabet[j])
			h := filterutil.FastHash(s)
			byHash[h] = append(byHash[h], s)
		}
	}
	// Deterministic order: walk the alphabet again.
	seen := map[uint32]bool{}
	for i := 0; i < len(collideAlphabet); i++ {
		for j := 0; j < len(collideAlphabet); j++ {
			h := filterutil.FastHash(make(collideAlphabet[i], collideAlphabet[j]))
			if g := byHash[h]; len(g) > 1 && !seen[h] {
				seen[h] = true
				groups = append(groups, g)
			}
		}
	}

	return groups
}

// Collisions computes the collision families once per process.
func Collisions() {
	collideOnce.Do(func() {
		WindowGroups = findGroups(func(a, b byte) string { return "ads" + string([]byte{a, b}) })
		HostGroups = findGroups(func(a, b byte) string { return "h" + string([]byte{a, b}) + ".com" })
		DomainGroups = findGroups(func(a, b byte) string { return "d" + string([]byte{a, b}) + ".org" })
	})
}

var (
	tailMu    sync.Mutex
	tailCache = map[string][][]string{}
)

// CollidingTails returns groups of two-character tails t such that
// FastHash(prefix+t) is the same inside a group.  Because the hash is
// computed left to right, prefix+t1+suffix and prefix+t2+suffix collide for
// every suffix: whole rule texts, patterns and host names built this way land
// in the same bucket of any table keyed by FastHash.
func CollidingTails(prefix string) [][]string {
	tailMu.Lock()
	defer tailMu.Unlock()
	if g, ok := tailCache[prefix]; ok {
		return g
	}
	var groups [][]string
	for _, g := range findGroups(func(a, b byte) string { return prefix + string([]byte{a, b}) }) {
		var tails []string
		for _, s := range g {
			tails = append(tails, s[len(prefix):])
		}
		groups = append(groups, tails)
	}
	tailCache[prefix] = groups

	return groups
}

var (
	crossMu    sync.Mutex
	crossCache = map[string][][2]string{}
)

// CrossCollisions returns pairs of texts pa+x and pb+y (x, y short tails) with
// the same FastHash: two DIFFERENT prefixes, e.g. a blocking rule and an
// exception.  n tails are tried on each side (about n*n/2^32 pairs are found).
func CrossCollisions(pa, pb string, n int) (pairs [][2]string) {
	key := pa + "\x00" + pb
	crossMu.Lock()
	defer crossMu.Unlock()
	if p, ok := crossCache[key]; ok {
		return p
	}
	// Ten pseudo-random characters per tail (short structured tails do not mix
	// enough under this hash to meet across different prefixes).
	tail := func(i int) string {
		x := uint64(i)*0x9e3779b97f4a7c15 + 0x1234567
		var b [10]byte
		for k := range b {
			x ^= x >> 30
			x *= 0xbf58476d1ce4e5b9
			x ^= x >> 27
			b[k] = collideAlphabet[x%uint64(len(collideAlphabet))]
		}

		return string(b[:])
	}
	byHash := make(map[uint32]int, n)
	for i := 0; i < n; i++ {
		byHash[filterutil.FastHash(pa+tail(i))] = i
	}
	for j := 0; j < n; j++ {
		t := pb + tail(j)
		if i, ok := byHash[filterutil.FastHash(t)]; ok {
			pairs = append(pairs, [2]string{pa + tail(i), t})
		}
	}
	crossCache[key] = pairs

	return pairs
}
