package gen

import (
	"math/rand"
	"net/netip"
	"sort"
	"strings"
)

// hostileHosts derives request hosts from a domain value: the value itself,
// subdomains, and label-boundary neighbours that must not match.
func hostileHosts(rng *rand.Rand, v string) string {
	if name, ok := strings.CutSuffix(v, ".*"); ok {
		switch rng.Intn(9) {
		case 0:
			return name + ".com"
		case 1:
			return name + ".co.uk"
		case 2:
			return "www." + name + ".de"
		case 3:
			return name + ".evil.x" + name + ".com"
		case 4:
			return "x" + name + ".com"
		case 5:
			return name + ".zzzz"
		case 6:
			return name + ".com.evil.org"
		case 7:
			return "a.b." + name + ".kawasaki.jp"
		default:
			return name
		}
	}
	switch rng.Intn(8) {
	case 0, 1:
		return v
	case 2:
		return "sub." + v
	case 3:
		return "a.b." + v
	case 4:
		return "x" + v
	case 5:
		return v + ".evil.org"
	case 6:
		if i := strings.IndexByte(v, '.'); i >= 0 {
			return v[i+1:]
		}

		return v
	default:
		return v + "x"
	}
}

func addrIn(rng *rand.Rand, p netip.Prefix) netip.Addr {
	a := p.Addr()
	if p.Bits() == a.BitLen() || rng.Intn(3) == 0 {
		return a
	}
	b := a.AsSlice()
	// Set some host bits.
	for i := p.Bits(); i < len(b)*8; i++ {
		if rng.Intn(2) == 0 {
			b[i/8] |= 1 << (7 - i%8)
		}
	}
	r, _ := netip.AddrFromSlice(b)

	return r
}

func addrOutside(rng *rand.Rand, p netip.Prefix) netip.Addr {
	a := p.Addr()
	b := a.AsSlice()
	if p.Bits() == 0 {
		return ClientIPs[1+rng.Intn(len(ClientIPs)-1)]
	}
	// Flip the last network bit.
	i := p.Bits() - 1
	b[i/8] ^= 1 << (7 - i%8)
	r, _ := netip.AddrFromSlice(b)

	return r
}

// TargetedReq returns a request whose fields are drawn to sit on the
// boundaries of the spec's conditions.  patternHost is a host name that the
// pattern mentions (may be empty).
func TargetedReq(rng *rand.Rand, s *Spec, patternHost string, hostnameProb float64) *Req {
	q := RandomReq(rng, hostnameProb)
	half := func() bool { return rng.Intn(2) == 0 }

	// Request host.
	host := ""
	switch {
	case len(s.DenyAllow) > 0 && half():
		host = hostileHosts(rng, s.DenyAllow[rng.Intn(len(s.DenyAllow))])
	case patternHost != "" && rng.Intn(4) > 0:
		switch rng.Intn(4) {
		case 0:
			host = "www." + patternHost
			if q.HostnameReq && rng.Intn(2) == 0 {
				// Names nobody validated: labels that hold characters
				// outside the host alphabet in front of the name.
				host = []string{"\u0440\u0435\u043a\u043b\u0430\u043c\u0430.", "*.", "a@b.", "x~y.", "a+b.", "_dmarc.", "a%20b."}[rng.Intn(7)] + patternHost
			}
		case 1:
			host = "x" + patternHost
		default:
			host = patternHost
		}
	}
	if host != "" {
		if q.HostnameReq {
			q.Host = host
		} else {
			q.URL = Schemes[rng.Intn(len(Schemes))] + "://" + host + Paths[rng.Intn(len(Paths))]
		}
	}

	if !q.HostnameReq {
		if len(s.Domains) > 0 && rng.Intn(4) > 0 {
			q.Source = "https://" + hostileHosts(rng, s.Domains[rng.Intn(len(s.Domains))].Name) + "/page.html"
		}
		if half() {
			switch {
			case len(s.TypesP) > 0 && half():
				q.Type = TypeNames[s.TypesP[rng.Intn(len(s.TypesP))]]
			case len(s.TypesR) > 0:
				q.Type = TypeNames[s.TypesR[rng.Intn(len(s.TypesR))]]
			}
		}
		if s.ThirdParty != 0 && half() {
			// First-party situation: same registrable domain, different host.
			q.Source = "https://static." + hostOfURL(q.URL) + "/"
		}
	}
	if len(s.DNSTypes) > 0 && rng.Intn(4) > 0 {
		q.DNSType = DNSTypeNames[strings.ToUpper(s.DNSTypes[rng.Intn(len(s.DNSTypes))].Name)]
	}
	if len(s.CTags) > 0 && rng.Intn(4) > 0 {
		var tags []string
		for _, t := range s.CTags {
			if rng.Intn(3) == 0 {
				tags = append(tags, t.Name)
			}
		}
		for _, t := range pickN(rng, CTagValues, rng.Intn(3)) {
			dup := false
			for _, e := range tags {
				dup = dup || e == t
			}
			if !dup {
				tags = append(tags, t)
			}
		}
		sort.Strings(tags)
		q.Tags = tags
	}
	if len(s.Clients) > 0 && rng.Intn(4) > 0 {
		cl := s.Clients[rng.Intn(len(s.Clients))]
		if rng.Intn(2) == 0 {
			// In a list that mixes address families, aim at an IPv6 entry.
			for _, j := range rng.Perm(len(s.Clients)) {
				if o := s.Clients[j]; o.IsNet && o.Prefix.Addr().Is6() {
					cl = o

					break
				}
			}
		}
		if cl.IsNet {
			if rng.Intn(3) == 0 {
				q.ClientIP = addrOutside(rng, cl.Prefix)
			} else {
				q.ClientIP = addrIn(rng, cl.Prefix)
			}
		} else {
			q.ClientName = cl.Name
			if rng.Intn(4) == 0 {
				q.ClientName = strings.ToLower(cl.Name) + "x"
			}
		}
	}

	return q
}

// RandomMaskSpec returns a random mask-pattern spec with modifiers of the
// enabled kinds and the host the pattern mentions.
func RandomMaskSpec(rng *rand.Rand, k ModKinds, p float64) (s *Spec, patternHost string) {
	s = &Spec{Exception: rng.Intn(4) == 0}
	t := PatternTemplates[rng.Intn(len(PatternTemplates))]
	if strings.Contains(t, "HOST") {
		patternHost = Hosts[rng.Intn(len(Hosts))]
		t = strings.ReplaceAll(t, "HOST", patternHost)
	}
	s.Pattern = t
	AddRandomMods(rng, s, k, p)
	// Patterns that are too wide are only accepted with a restriction.
	if len(t) < 3 && !s.HasRestriction() {
		switch rng.Intn(5) {
		case 0:
			s.Domains = []Val{{Name: DomainValues[rng.Intn(len(DomainValues))]}}
		case 1:
			s.DenyAllow = []string{DenyAllowValues[rng.Intn(len(DenyAllowValues))]}
		case 2:
			s.CTags = []Val{{Name: CTagValues[rng.Intn(len(CTagValues))]}}
		case 3:
			cl := ClientNames[rng.Intn(len(ClientNames))]
			s.Clients = []Client{cl}
		default:
			s.DNSTypes = []Val{{Name: DNSTypeList[rng.Intn(len(DNSTypeList))]}}
		}
	}

	return s, patternHost
}
