// Package ref contains the reference models: small, direct implementations of
// the documented semantics, written without looking at how the library
// computes the same thing (no regular expressions, no indexes).
package ref

import "strings"

// Token kinds of the mask language.
const (
	tLit = iota
	tStar
	tSep
	tStartURL
	tAnchorStart
	tAnchorEnd
)

type token struct {
	kind int
	ch   byte
}

// Mask is a compiled reference matcher of one basic pattern.
type Mask struct {
	any       bool
	toks      []token
	matchCase bool
}

// CompileMask builds the reference matcher of a basic (non-regex) pattern as
// written in the rule.  The documented rewriting of a trailing "/*" to "^" is
// applied here.
func CompileMask(pattern string, matchCase bool) *Mask {
	if strings.HasSuffix(pattern, "/*") {
		pattern = pattern[:len(pattern)-2] + "^"
	}
	m := &Mask{matchCase: matchCase}
	if pattern == "" || pattern == "*" || pattern == "|" || pattern == "||" {
		m.any = true

		return m
	}
	p := pattern
	switch {
	case strings.HasPrefix(p, "||"):
		m.toks = append(m.toks, token{kind: tStartURL})
		p = p[2:]
	case strings.HasPrefix(p, "|"):
		m.toks = append(m.toks, token{kind: tAnchorStart})
		p = p[1:]
	}
	end := false
	if len(p) > 0 && p[len(p)-1] == '|' {
		end = true
		p = p[:len(p)-1]
	}
	for i := 0; i < len(p); i++ {
		switch p[i] {
		case '*':
			m.toks = append(m.toks, token{kind: tStar})
		case '^':
			m.toks = append(m.toks, token{kind: tSep})
		default:
			m.toks = append(m.toks, token{kind: tLit, ch: p[i]})
		}
	}
	if end {
		m.toks = append(m.toks, token{kind: tAnchorEnd})
	}

	return m
}

func isSepChar(c byte) bool {
	switch {
	case c >= 'a' && c <= 'z', c >= 'A' && c <= 'Z', c >= '0' && c <= '9':
		return false
	case c == '.', c == '%', c == '_', c == '-', c == ' ':
		return false
	}

	return true
}

func lower(c byte) byte {
	if c >= 'A' && c <= 'Z' {
		return c + 32
	}

	return c
}

func (m *Mask) eq(a, b byte) bool {
	if m.matchCase {
		return a == b
	}

	return lower(a) == lower(b)
}

func (m *Mask) hostClass(c byte) bool {
	if !m.matchCase {
		c = lower(c)
	}

	return (c >= 'a' && c <= 'z') || (c >= '0' && c <= '9') || c == '-' || c == '_' || c == '.'
}

func (m *Mask) hasPrefixAt(u string, i int, lit string) bool {
	if i+len(lit) > len(u) {
		return false
	}
	for k := 0; k < len(lit); k++ {
		if !m.eq(u[i+k], lit[k]) {
			return false
		}
	}

	return true
}

// Match tells whether the pattern accepts u.
func (m *Mask) Match(u string) bool {
	if m.any {
		return true
	}
	anchored := len(m.toks) > 0 && (m.toks[0].kind == tStartURL || m.toks[0].kind == tAnchorStart)
	if anchored {
		return m.at(0, u, 0)
	}
	for i := 0; i <= len(u); i++ {
		if m.at(0, u, i) {
			return true
		}
	}

	return false
}

func (m *Mask) at(ti int, u string, ui int) bool {
	if ti == len(m.toks) {
		return true
	}
	t := m.toks[ti]
	switch t.kind {
	case tLit:
		return ui < len(u) && m.eq(u[ui], t.ch) && m.at(ti+1, u, ui+1)
	case tStar:
		for j := ui; j <= len(u); j++ {
			if m.at(ti+1, u, j) {
				return true
			}
		}

		return false
	case tSep:
		if ui < len(u) && isSepChar(u[ui]) && m.at(ti+1, u, ui+1) {
			return true
		}

		return ui == len(u) && m.at(ti+1, u, ui)
	case tAnchorStart:
		return ui == 0 && m.at(ti+1, u, ui)
	case tAnchorEnd:
		return ui == len(u) && m.at(ti+1, u, ui)
	case tStartURL:
		if ui != 0 {
			return false
		}
		for _, scheme := range []string{"http", "https", "ws", "wss"} {
			if !m.hasPrefixAt(u, 0, scheme) || !m.hasPrefixAt(u, len(scheme), "://") {
				continue
			}
			k := len(scheme) + 3
			// No subdomain part.
			if m.at(ti+1, u, k) {
				return true
			}
			// One or more host characters followed by a dot.
			for j := k; j < len(u) && m.hostClass(u[j]); j++ {
				if j+1 < len(u) && u[j+1] == '.' {
					// u[k..j] is the run, u[j+1] the dot that ends it.
					if m.at(ti+1, u, j+2) {
						return true
					}
				}
			}
		}

		return false
	}

	return false
}
