package ref

import (
	"net/netip"
	"net/url"
	"strings"

	"github.com/AdguardTeam/urlfilter/rules"
	"golang.org/x/net/publicsuffix"

	"verifharness/internal/gen"
)

// Tri is a three-valued answer: the reference may leave a case open where
// the statement does.
type Tri int

// Tri values.
const (
	No Tri = iota
	Yes
	DontCare
)

// Bool converts a bool.
func Bool(b bool) Tri {
	if b {
		return Yes
	}

	return No
}

// HostOf returns the host name of a URL of the contract shape using net/url.
func HostOf(raw string) string {
	if raw == "" {
		return ""
	}
	u, err := url.Parse(raw)
	if err != nil {
		return ""
	}

	return u.Hostname()
}

// RegDomain returns the registrable domain (eTLD+1) of a host name or the host
// name itself when there is none.
func RegDomain(host string) string {
	if host == "" {
		return ""
	}
	d, err := publicsuffix.EffectiveTLDPlusOne(host)
	if err != nil {
		return host
	}

	return d
}

// ThirdParty tells whether a request for host from source host src is
// third-party.
func ThirdParty(host, src string) bool {
	return src != "" && RegDomain(src) != RegDomain(host)
}

// sameOrSub tells whether h equals d or is a subdomain of d at a label
// boundary.
func sameOrSub(h, d string) bool {
	return h == d || strings.HasSuffix(h, "."+d)
}

// DomainListMatch tells whether host h is equal to or a subdomain of one of the
// values; a value "name.*" stands for name.<any ICANN public suffix>.
func DomainListMatch(h string, values []string) Tri {
	res := No
	for _, d := range values {
		if name, ok := strings.CutSuffix(d, ".*"); ok {
			if h == "" {
				continue
			}
			suffix, icann := publicsuffix.PublicSuffix(h)
			if !icann {
				if strings.Contains(suffix, ".") {
					// Private suffix (blogspot.com ...): the statement does
					// not say whether it counts as a TLD.
					if sameOrSub(h, name+"."+suffix) {
						res = DontCare
					}
				}

				continue
			}
			if sameOrSub(h, name+"."+suffix) {
				return Yes
			}

			continue
		}
		if sameOrSub(h, d) {
			return Yes
		}
	}

	return res
}

func and(a, b Tri) Tri {
	if a == No || b == No {
		return No
	}
	if a == DontCare || b == DontCare {
		return DontCare
	}

	return Yes
}

func not(a Tri) Tri {
	switch a {
	case Yes:
		return No
	case No:
		return Yes
	}

	return DontCare
}

// ShouldMatchHostname tells whether the pattern of a rule is matched against
// the bare host name of a hostname request (as documented on the rule type:
// patterns that start with "||", "http://", "https://", "://" or have the
// "/name." shape are matched against the URL).
func ShouldMatchHostname(pattern string) bool {
	if strings.HasSuffix(pattern, "/*") {
		pattern = pattern[:len(pattern)-2] + "^"
	}
	for _, p := range []string{"||", "http://", "https://", "://"} {
		if strings.HasPrefix(pattern, p) {
			return false
		}
	}
	if len(pattern) > 3 && pattern[0] == '/' && pattern[len(pattern)-1] == '.' {
		for i := 1; i < len(pattern)-1; i++ {
			c := pattern[i]
			if !(c >= 'a' && c <= 'z' || c >= 'A' && c <= 'Z' || c >= '0' && c <= '9' || c == '.' || c == '-') {
				return true
			}
		}

		return false
	}

	return true
}

// Facts are the request facts the modifier conditions read, derived with the
// standard library and the public suffix list, never read from the request
// object under test.
type Facts struct {
	Target     string
	Host       string
	SrcHost    string
	ThirdParty bool
	Type       rules.RequestType
	HostIsIP   bool
}

// FactsOf derives the facts of a request for a rule pattern.
func FactsOf(q *gen.Req, pattern string) Facts {
	var f Facts
	if q.HostnameReq {
		f.Host = q.Host
		f.Type = rules.TypeDocument
		f.Target = "http://" + q.Host
		if ShouldMatchHostname(pattern) {
			f.Target = q.Host
		}
		f.HostIsIP = isIP(q.Host)

		return f
	}
	f.Target = q.URL
	if len(f.Target) > 4096 {
		f.Target = f.Target[:4096]
	}
	f.Host = HostOf(q.URL)
	f.SrcHost = HostOf(q.Source)
	f.ThirdParty = ThirdParty(f.Host, f.SrcHost)
	f.Type = q.Type

	return f
}

func isIP(h string) bool {
	_, err := netip.ParseAddr(h)

	return err == nil
}

// Modifiers evaluates every modifier condition of the spec (not the pattern).
func Modifiers(s *gen.Spec, q *gen.Req, f Facts) Tri {
	res := Yes

	// third-party / first-party
	switch s.ThirdParty {
	case 1:
		res = and(res, Bool(f.ThirdParty))
	case -1:
		res = and(res, Bool(!f.ThirdParty))
	}

	// content types; document-level options and $popup restrict the rule to
	// documents (they replace the permitted set).
	var permitted, restricted rules.RequestType
	for _, t := range s.TypesP {
		permitted |= gen.TypeNames[t]
	}
	for _, t := range s.TypesR {
		restricted |= gen.TypeNames[t]
	}
	if len(s.DocOpts) > 0 || s.Popup {
		permitted = rules.TypeDocument
	}
	if permitted != 0 && permitted&f.Type == 0 {
		return No
	}
	if restricted != 0 && restricted&f.Type != 0 {
		return No
	}

	// $domain: excluded first, then included.
	var perm, rest []string
	for _, d := range s.Domains {
		if d.Neg {
			rest = append(rest, d.Name)
		} else {
			perm = append(perm, d.Name)
		}
	}
	if len(rest) > 0 {
		res = and(res, not(DomainListMatch(f.SrcHost, rest)))
	}
	if len(perm) > 0 {
		res = and(res, DomainListMatch(f.SrcHost, perm))
	}

	// $denyallow on the request host; never for IP hosts of hostname requests.
	if len(s.DenyAllow) > 0 {
		if q.HostnameReq && f.HostIsIP {
			return No
		}
		res = and(res, not(DomainListMatch(f.Host, s.DenyAllow)))
	}

	// $dnstype
	if len(s.DNSTypes) > 0 {
		hasPerm, inPerm := false, false
		for _, t := range s.DNSTypes {
			num := gen.DNSTypeNames[strings.ToUpper(t.Name)]
			if t.Neg {
				if num == q.DNSType {
					return No
				}
			} else {
				hasPerm = true
				if num == q.DNSType {
					inPerm = true
				}
			}
		}
		if hasPerm && !inPerm {
			return No
		}
	}

	// $ctag
	if len(s.CTags) > 0 {
		has := func(tag string) bool {
			for _, t := range q.Tags {
				if t == tag {
					return true
				}
			}

			return false
		}
		hasPerm, inPerm := false, false
		for _, t := range s.CTags {
			if t.Neg {
				if has(t.Name) {
					return No
				}
			} else {
				hasPerm = true
				if has(t.Name) {
					inPerm = true
				}
			}
		}
		if hasPerm && !inPerm {
			return No
		}
	}

	// $client
	if len(s.Clients) > 0 {
		is := func(cl gen.Client) bool {
			if cl.IsNet {
				return q.ClientIP.IsValid() && cl.Prefix.Contains(q.ClientIP)
			}

			return q.ClientName != "" && cl.Name == q.ClientName
		}
		hasPerm, inPerm := false, false
		for _, cl := range s.Clients {
			if cl.Neg {
				if is(cl) {
					return No
				}
			} else {
				hasPerm = true
				if is(cl) {
					inPerm = true
				}
			}
		}
		if hasPerm && !inPerm {
			return No
		}
	}

	return res
}

// Match is the reference of NetworkRule.Match for mask-pattern specs.
func Match(s *gen.Spec, q *gen.Req) Tri {
	f := FactsOf(q, s.Pattern)
	res := Modifiers(s, q, f)
	if res == No {
		return No
	}
	m := CompileMask(s.Pattern, s.MatchCase)

	return and(res, Bool(m.Match(f.Target)))
}
