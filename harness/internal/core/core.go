// Package core is the runtime-monitoring framework shared by all property
// drivers: deterministic case lists, worker processes with a journal, crash
// harvesting, verdict aggregation, known-finding matching, replay files and
// evidence output.
package core

import (
	"encoding/json"
	"fmt"
	"hash/fnv"
	"math/rand"
	"os"
	"runtime/debug"
	"sort"
	"strings"
)

// Tier is the depth of a run.
type Tier string

// Tiers.
const (
	Quick    Tier = "quick"
	Thorough Tier = "thorough"
)

// Prop describes one property driver.
type Prop struct {
	// ID is the property id, e.g. "C01".
	ID string
	// Level is the evidence level category.
	Level string
	// Rule describes how cases are generated and what makes one non-trivial.
	Rule string
	// Assumptions lists what the check trusts.
	Assumptions []string
	// Cases returns the number of cases of the tier.  The case list is a
	// function of (seed, tier) only.
	Cases func(t Tier) int
	// Exhaustive tells whether the tier enumerates a finite space completely.
	Exhaustive func(t Tier) bool
	// Setup is run once per process before the first case.
	Setup func(env *Env)
	// Run executes case idx.
	Run func(c *Ctx, idx int)
	// MinNonTrivial is the number of distinct non-trivial cases below which
	// the run is reported as inconclusive.  Zero means 2.
	MinNonTrivial int
	// Workers overrides the number of worker processes (0 = number of CPUs).
	Workers int
	// Cold, if set, returns case indexes that are run once more, each as the
	// first and only case of a fresh process (state that is initialised lazily
	// per process is then reached by that case first).  When nil, a number of
	// indexes derived from the seed is used.
	Cold func(t Tier) []int
	// PostCheck, if set, is run by the parent after all workers have
	// finished; it may add violations or mark the run as inconclusive based
	// on the merged events.
	PostCheck func(r *Merged)
}

// Env is the per-process environment.
type Env struct {
	Seed     int64
	Tier     Tier
	RepoDir  string
	VerifDir string
	Replay   bool
}

// Violation is one refuting observation.
type Violation struct {
	Property string          `json:"property"`
	Seed     int64           `json:"seed"`
	Tier     Tier            `json:"tier"`
	Index    int             `json:"index"`
	Sig      string          `json:"sig"`
	Tags     []string        `json:"tags,omitempty"`
	Msg      string          `json:"msg"`
	Witness  json.RawMessage `json:"witness,omitempty"`
}

// Ctx is handed to a driver for one case.
type Ctx struct {
	Env  *Env
	Prop *Prop
	Idx  int
	Rng  *rand.Rand

	w *workerState
}

// CaseSeed derives the PRNG seed of a case.
func CaseSeed(seed int64, prop string, idx int) int64 {
	h := fnv.New64a()
	fmt.Fprintf(h, "%d/%s/%d", seed, prop, idx)

	return int64(h.Sum64() & 0x7fffffffffffffff)
}

// SubRng returns a PRNG for a named sub-stream of the whole run (not of the
// case): used for things that must be the same in every case of a run.
func (e *Env) SubRng(name string) *rand.Rand {
	h := fnv.New64a()
	fmt.Fprintf(h, "%d/%s", e.Seed, name)

	return rand.New(rand.NewSource(int64(h.Sum64() & 0x7fffffffffffffff)))
}

// Hash64 hashes strings to a 64-bit value.
func Hash64(parts ...string) uint64 {
	h := fnv.New64a()
	for _, p := range parts {
		_, _ = h.Write([]byte(p))
		_, _ = h.Write([]byte{0})
	}

	return h.Sum64()
}

// NonTrivial records that the current evaluation was non-trivial under the
// property's rule; key identifies the case for distinct counting.
func (c *Ctx) NonTrivial(key uint64) {
	// Distinct keys are tracked exactly up to a per-worker cap; beyond it the
	// reported number is a lower bound (events.distinct_tracking_capped).
	if len(c.w.nontrivial) >= maxDistinctPerWorker {
		if _, ok := c.w.nontrivial[key]; !ok {
			c.w.events["distinct_tracking_capped"] = 1
		}

		return
	}
	c.w.nontrivial[key] = struct{}{}
}

// maxDistinctPerWorker bounds the memory of distinct counting.
const maxDistinctPerWorker = 1 << 20

// Eval counts one oracle evaluation (a case may contain many).
func (c *Ctx) Eval(n int) {
	c.w.evals += int64(n)
}

// Event adds n to a named counter.
func (c *Ctx) Event(name string, n int64) {
	c.w.events[name] += n
}

// Inconclusive counts an evaluation that could not be judged.
func (c *Ctx) Inconclusive(reason string) {
	c.w.inconclusive[reason]++
}

// Sample offers an actual case for the evidence file.  Only the first few
// are kept per worker.
func (c *Ctx) Sample(v any) {
	if len(c.w.samples) < 3 {
		c.w.samples = append(c.w.samples, v)
	}
}

// WantSample tells whether another sample would be kept, so that drivers can
// avoid building expensive sample values.
func (c *Ctx) WantSample() bool {
	return len(c.w.samples) < 3
}

// Violation records a refuting observation.
func (c *Ctx) Violation(sig string, tags []string, witness any, format string, args ...any) {
	var raw json.RawMessage
	if witness != nil {
		b, err := json.Marshal(witness)
		if err != nil {
			b, _ = json.Marshal(fmt.Sprintf("%+v", witness))
		}
		raw = b
	}

	v := &Violation{
		Property: c.Prop.ID,
		Seed:     c.Env.Seed,
		Tier:     c.Env.Tier,
		Index:    c.Idx,
		Sig:      sig,
		Tags:     tags,
		Msg:      fmt.Sprintf(format, args...),
		Witness:  raw,
	}
	c.w.addViolation(v)
}

// Guard runs f and converts a panic into a violation with the given witness.
// It returns true if f panicked.
func (c *Ctx) Guard(what string, tags []string, witness any, f func()) (panicked bool) {
	defer func() {
		if r := recover(); r != nil {
			panicked = true
			st := string(debug.Stack())
			c.Violation("panic:"+what+":"+panicSite(st), tags, witness, "panic in %s: %v\n%s", what, r, trimStack(st))
		}
	}()
	f()

	return false
}

// panicSite extracts the first urlfilter frame below the panic from a stack.
func panicSite(st string) string {
	lines := strings.Split(st, "\n")
	seenPanic := false
	for _, l := range lines {
		if strings.HasPrefix(l, "panic(") {
			seenPanic = true

			continue
		}
		if !seenPanic {
			continue
		}
		if strings.HasPrefix(l, "github.com/AdguardTeam/urlfilter") {
			if i := strings.IndexByte(l, '('); i > 0 {
				l = l[:i]
			}

			return strings.TrimPrefix(l, "github.com/AdguardTeam/urlfilter")
		}
	}

	return "unknown"
}

func trimStack(st string) string {
	lines := strings.Split(st, "\n")
	if len(lines) > 40 {
		lines = lines[:40]
	}

	return strings.Join(lines, "\n")
}

// workerState accumulates what one worker process observed.
type workerState struct {
	evals        int64
	nontrivial   map[uint64]struct{}
	events       map[string]int64
	inconclusive map[string]int64
	samples      []any
	violations   []*Violation
	sigCount     map[string]int
	violLog      *os.File
	cases        int64
}

func newWorkerState() *workerState {
	return &workerState{
		nontrivial:   map[uint64]struct{}{},
		events:       map[string]int64{},
		inconclusive: map[string]int64{},
		sigCount:     map[string]int{},
	}
}

func (w *workerState) addViolation(v *Violation) {
	w.sigCount[v.Sig]++
	if w.sigCount[v.Sig] > 3 {
		// Keep at most three witnesses per signature.
		return
	}
	w.violations = append(w.violations, v)
	if w.violLog != nil {
		b, _ := json.Marshal(v)
		_, _ = w.violLog.Write(append(b, '\n'))
	}
}

// workerResult is what a worker hands to the parent.
type workerResult struct {
	Cases        int64            `json:"cases"`
	Evals        int64            `json:"evals"`
	NonTrivial   []uint64         `json:"nontrivial"`
	Events       map[string]int64 `json:"events"`
	Inconclusive map[string]int64 `json:"inconclusive"`
	Samples      []any            `json:"samples"`
	SigCount     map[string]int   `json:"sig_count"`
	Done         bool             `json:"done"`
}

// Merged is the union of all worker results.
type Merged struct {
	Cases        int64
	Evals        int64
	NonTrivial   map[uint64]struct{}
	Events       map[string]int64
	Inconclusive map[string]int64
	Samples      []any
	Violations   []*Violation
	SigCount     map[string]int
	Notes        []string
	// ForceInconclusive is set by PostCheck when the run observed too little.
	ForceInconclusive string
}

func sortedKeys[V any](m map[string]V) []string {
	ks := make([]string, 0, len(m))
	for k := range m {
		ks = append(ks, k)
	}
	sort.Strings(ks)

	return ks
}

// Standalone returns a context that is not attached to a worker run (native
// fuzz targets); violations are collected in memory.
func Standalone(propID string, seed int64) (c *Ctx, violations func() []*Violation) {
	w := newWorkerState()
	c = &Ctx{
		Env:  &Env{Seed: seed, Tier: Thorough, RepoDir: "/repo", VerifDir: "/verif", Replay: true},
		Prop: &Prop{ID: propID},
		w:    w,
		Rng:  rand.New(rand.NewSource(seed)),
	}

	return c, func() []*Violation { return w.violations }
}
