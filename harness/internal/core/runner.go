package core

import (
	"bufio"
	"bytes"
	"encoding/json"
	"flag"
	"fmt"
	"io"
	"log"
	"log/slog"
	"math/rand"
	"os"
	"os/exec"
	"path/filepath"
	"runtime"
	"strconv"
	"strings"
	"sync"
	"sync/atomic"
	"time"

	glog "github.com/AdguardTeam/golibs/log"
)

// Registry maps property ids to drivers.
var Registry = map[string]*Prop{}

// Register adds a driver.
func Register(p *Prop) {
	if p.Level == "" {
		p.Level = "exploration"
	}
	Registry[p.ID] = p
}

// KnownFinding is an entry of /verif/known_findings.json.
type KnownFinding struct {
	Kind     string `json:"kind"` // "known" or "fixed"
	Property string `json:"property"`
	Tag      string `json:"tag,omitempty"`
	Commit   string `json:"commit,omitempty"`
	What     string `json:"what"`
	Witness  any    `json:"witness,omitempty"`
}

func loadKnown(verifDir string) (kf []KnownFinding) {
	b, err := os.ReadFile(filepath.Join(verifDir, "known_findings.json"))
	if err != nil {
		return nil
	}
	var doc struct {
		Findings []KnownFinding `json:"findings"`
	}
	if err = json.Unmarshal(b, &doc); err != nil {
		fmt.Fprintf(os.Stderr, "known_findings.json: %v\n", err)

		return nil
	}

	return doc.Findings
}

// Main is the entry point of cmd/verifrun.
func Main() {
	var (
		propID   = flag.String("prop", "", "property id")
		tier     = flag.String("tier", "quick", "quick|thorough")
		seed     = flag.Int64("seed", 1, "seed")
		worker   = flag.Int("worker", -1, "internal: worker number")
		nworkers = flag.Int("nworkers", 0, "number of workers")
		workDir  = flag.String("work", "", "internal: scratch directory")
		start    = flag.Int("start", 0, "internal: first case index of this worker run")
		replay   = flag.String("replay", "", "replay file")
		repoDir  = flag.String("repo", "/repo", "repository directory")
		verifDir = flag.String("verif", "/verif", "verif directory")
		one      = flag.Int("case", -1, "run a single case in-process")
		count    = flag.Int("count", 0, "internal: number of cases of this worker run (0 = all)")
	)
	flag.Parse()

	p := Registry[*propID]
	if p == nil {
		fmt.Fprintf(os.Stderr, "unknown property %q\n", *propID)
		os.Exit(2)
	}

	env := &Env{Seed: *seed, Tier: Tier(*tier), RepoDir: *repoDir, VerifDir: *verifDir}

	switch {
	case *replay != "":
		os.Exit(runReplay(p, env, *replay))
	case *one >= 0:
		os.Exit(runSingle(p, env, *one))
	case *worker >= 0:
		os.Exit(runWorker(p, env, *worker, *nworkers, *workDir, *start, *count))
	default:
		os.Exit(runParent(p, env, *nworkers))
	}
}

func runCase(p *Prop, env *Env, w *workerState, idx int) {
	c := &Ctx{Env: env, Prop: p, Idx: idx, w: w}
	c.Rng = rand.New(rand.NewSource(CaseSeed(env.Seed, p.ID, idx)))
	w.cases++
	if CaseSeed(env.Seed, p.ID+"/logger", idx)%6 == 0 {
		// One case in six runs the way a process in verbose mode does: with the
		// default logger of log/slog at the debug level (output discarded), so
		// that statements guarded by the level are executed too.
		prev := slog.Default()
		slog.SetDefault(slog.New(slog.NewTextHandler(io.Discard, &slog.HandlerOptions{Level: slog.LevelDebug})))
		// (the proxy package logs through golibs/log, which has a level of
		// its own and writes through the standard logger)
		prevLevel := glog.GetLevel()
		glog.SetLevel(glog.DEBUG)
		log.SetOutput(io.Discard)
		w.events["cases_under_a_debug_level_logger"]++
		defer func() {
			slog.SetDefault(prev)
			glog.SetLevel(prevLevel)
			log.SetOutput(os.Stderr)
		}()
	}
	c.Guard("case", nil, map[string]any{"index": idx}, func() { p.Run(c, idx) })
}

func runSingle(p *Prop, env *Env, idx int) int {
	env.Replay = true
	if p.Setup != nil {
		p.Setup(env)
	}
	w := newWorkerState()
	runCase(p, env, w, idx)
	for _, v := range w.violations {
		fmt.Printf("violation sig=%s tags=%v\n%s\nwitness=%s\n", v.Sig, v.Tags, v.Msg, string(v.Witness))
	}
	fmt.Printf("case %d: evals=%d nontrivial=%d violations=%d events=%v inconclusive=%v\n",
		idx, w.evals, len(w.nontrivial), len(w.violations), w.events, w.inconclusive)
	if len(w.violations) > 0 {
		return 1
	}

	return 0
}

func runReplay(p *Prop, env *Env, path string) int {
	b, err := os.ReadFile(path)
	if err != nil {
		fmt.Fprintln(os.Stderr, err)

		return 2
	}
	var v Violation
	if err = json.Unmarshal(b, &v); err != nil {
		fmt.Fprintln(os.Stderr, err)

		return 2
	}
	env.Seed = v.Seed
	env.Tier = v.Tier
	fmt.Printf("replaying %s case %d (seed %d, tier %s); recorded sig=%s\n", v.Property, v.Index, v.Seed, v.Tier, v.Sig)

	return runSingle(p, env, v.Index)
}

func runWorker(p *Prop, env *Env, wnum, nworkers int, workDir string, start, count int) int {
	if p.Setup != nil {
		p.Setup(env)
	}
	w := newWorkerState()

	journal, err := os.OpenFile(filepath.Join(workDir, fmt.Sprintf("w%d.journal", wnum)), os.O_CREATE|os.O_WRONLY, 0o644)
	if err != nil {
		fmt.Fprintln(os.Stderr, err)

		return 2
	}
	w.violLog, err = os.OpenFile(filepath.Join(workDir, fmt.Sprintf("w%d.viol.jsonl", wnum)), os.O_CREATE|os.O_WRONLY|os.O_APPEND, 0o644)
	if err != nil {
		fmt.Fprintln(os.Stderr, err)

		return 2
	}

	total := p.Cases(env.Tier)
	var buf [24]byte
	for idx := start; idx < total; idx++ {
		if idx%nworkers != wnum {
			continue
		}
		s := strconv.AppendInt(buf[:0], int64(idx), 10)
		for len(s) < 20 {
			s = append(s, ' ')
		}
		_, _ = journal.WriteAt(s, 0)
		runCase(p, env, w, idx)
		if count > 0 && int(w.cases) >= count {
			break
		}
	}
	_, _ = journal.WriteAt([]byte("done                "), 0)

	res := workerResult{
		Cases:        w.cases,
		Evals:        w.evals,
		Events:       w.events,
		Inconclusive: w.inconclusive,
		Samples:      w.samples,
		SigCount:     w.sigCount,
		Done:         true,
	}
	for k := range w.nontrivial {
		res.NonTrivial = append(res.NonTrivial, k)
	}
	b, _ := json.Marshal(res)
	name := filepath.Join(workDir, fmt.Sprintf("w%d.result.%d.json", wnum, start))
	if err = os.WriteFile(name, b, 0o644); err != nil {
		fmt.Fprintln(os.Stderr, err)

		return 2
	}

	return 0
}

// watchdogFor returns the generous wall-clock limit of one worker run.  Its
// firing is reported as inconclusive, never as a violation.
func watchdogFor(t Tier) time.Duration {
	if v := os.Getenv("VERIF_WATCHDOG_S"); v != "" {
		if n, err := strconv.Atoi(v); err == nil {
			return time.Duration(n) * time.Second
		}
	}
	if t == Thorough {
		return 3 * time.Hour
	}

	return 20 * time.Minute
}

func runParent(p *Prop, env *Env, nworkers int) int {
	t0 := time.Now()
	if nworkers <= 0 {
		nworkers = p.Workers
	}
	if nworkers <= 0 {
		nworkers = runtime.NumCPU()
	}
	total := p.Cases(env.Tier)
	if total < nworkers {
		nworkers = max(total, 1)
	}

	workDir, err := os.MkdirTemp(filepath.Join(env.VerifDir, ".work"), p.ID+".")
	if err != nil {
		_ = os.MkdirAll(filepath.Join(env.VerifDir, ".work"), 0o755)
		workDir, err = os.MkdirTemp(filepath.Join(env.VerifDir, ".work"), p.ID+".")
		if err != nil {
			fmt.Fprintln(os.Stderr, err)

			return 2
		}
	}
	defer os.RemoveAll(workDir)

	self, _ := os.Executable()
	m := &Merged{
		NonTrivial:   map[uint64]struct{}{},
		Events:       map[string]int64{},
		Inconclusive: map[string]int64{},
		SigCount:     map[string]int{},
	}
	var mu sync.Mutex
	var wg sync.WaitGroup
	var aborted atomic.Bool
	for wn := 0; wn < nworkers; wn++ {
		wg.Add(1)
		go func(wn int) {
			defer wg.Done()
			start := 0
			for restarts := 0; ; restarts++ {
				if aborted.Load() {
					return
				}
				stderrPath := filepath.Join(workDir, fmt.Sprintf("w%d.stderr.%d", wn, restarts))
				ef, _ := os.Create(stderrPath)
				cmd := exec.Command(self,
					"-prop", p.ID, "-tier", string(env.Tier), "-seed", strconv.FormatInt(env.Seed, 10),
					"-worker", strconv.Itoa(wn), "-nworkers", strconv.Itoa(nworkers),
					"-work", workDir, "-start", strconv.Itoa(start),
					"-repo", env.RepoDir, "-verif", env.VerifDir)
				cmd.Stdout = ef
				cmd.Stderr = ef
				cmd.Env = append(os.Environ(), "VERIF_WORKER=1")
				done := make(chan error, 1)
				if err := cmd.Start(); err != nil {
					mu.Lock()
					m.Notes = append(m.Notes, fmt.Sprintf("worker %d: cannot start: %v", wn, err))
					mu.Unlock()
					_ = ef.Close()

					return
				}
				go func() { done <- cmd.Wait() }()
				var werr error
				timedOut, stalled := false, false
				journalPath := filepath.Join(workDir, fmt.Sprintf("w%d.journal", wn))
				watchdog := time.NewTimer(watchdogFor(env.Tier))
				tick := time.NewTicker(5 * time.Second)
				lastJournal, lastChange := "", time.Now()
			wait:
				for {
					select {
					case werr = <-done:
						break wait
					case <-watchdog.C:
						timedOut = true
						_ = cmd.Process.Signal(os.Interrupt)
						_ = cmd.Process.Kill()
						werr = <-done

						break wait
					case <-tick.C:
						if aborted.Load() {
							// Another worker found a case that does not return: the
							// verdict is settled, the rest of the run is skipped.
							_ = cmd.Process.Kill()
							<-done
							watchdog.Stop()
							tick.Stop()
							_ = ef.Close()

							return
						}
						jb, _ := os.ReadFile(journalPath)
						js := strings.TrimSpace(string(jb))
						if js != lastJournal {
							lastJournal, lastChange = js, time.Now()

							continue
						}
						if _, aerr := strconv.Atoi(js); aerr == nil && time.Since(lastChange) > stallLimit(env.Tier) {
							// One case has been in flight for a very long time: it
							// is taken out and run on its own (below).
							stalled = true
							_ = cmd.Process.Kill()
							werr = <-done

							break wait
						}
					}
				}
				watchdog.Stop()
				tick.Stop()
				_ = ef.Close()
				if stalled {
					idx, _ := strconv.Atoi(lastJournal)
					returned := runAlone(p, env, self, workDir, idx, m, &mu)
					mu.Lock()
					if returned {
						m.Events["slow_cases_that_finished_when_run_alone"]++
					} else {
						v := &Violation{
							Property: p.ID, Seed: env.Seed, Tier: env.Tier, Index: idx,
							Sig: "no-return",
							Msg: fmt.Sprintf("case %d does not return: in flight for more than %v in its worker, and again for more than %v when run alone in a process of its own", idx, stallLimit(env.Tier), stallLimit(env.Tier)),
						}
						m.Violations = append(m.Violations, v)
						m.SigCount[v.Sig]++
						if !aborted.Swap(true) {
							m.Notes = append(m.Notes, fmt.Sprintf("case %d does not return; the remaining cases of the run were skipped", idx))
						}
					}
					mu.Unlock()
					if aborted.Load() {
						return
					}
					start = idx + 1

					continue
				}

				resPath := filepath.Join(workDir, fmt.Sprintf("w%d.result.%d.json", wn, start))
				if rb, rerr := os.ReadFile(resPath); rerr == nil && werr == nil {
					var res workerResult
					if json.Unmarshal(rb, &res) == nil {
						mu.Lock()
						mergeResult(m, &res)
						mu.Unlock()
					}

					return
				}

				// The worker died.  Find the case in flight.
				jb, _ := os.ReadFile(filepath.Join(workDir, fmt.Sprintf("w%d.journal", wn)))
				js := strings.TrimSpace(string(jb))
				idx, perr := strconv.Atoi(js)
				tail := tailFile(stderrPath, 60)
				mu.Lock()
				if timedOut {
					m.Inconclusive["watchdog"]++
					m.Notes = append(m.Notes, fmt.Sprintf("worker %d: wall-clock watchdog fired at case %s (inconclusive)", wn, js))
					mu.Unlock()

					return
				}
				if perr != nil {
					m.Notes = append(m.Notes, fmt.Sprintf("worker %d died before its first case: %v\n%s", wn, werr, tail))
					m.Inconclusive["worker-start-failure"]++
					mu.Unlock()

					return
				}
				v := &Violation{
					Property: p.ID, Seed: env.Seed, Tier: env.Tier, Index: idx,
					Sig: "process-death:" + deathSite(tail),
					Msg: fmt.Sprintf("worker process died (%v) while executing case %d\n%s", werr, idx, tail),
				}
				m.Violations = append(m.Violations, v)
				m.SigCount[v.Sig]++
				mu.Unlock()
				if restarts >= 20 {
					mu.Lock()
					m.Notes = append(m.Notes, fmt.Sprintf("worker %d: too many restarts, remaining cases skipped", wn))
					m.Inconclusive["restart-limit"]++
					mu.Unlock()

					return
				}
				start = idx + 1
			}
		}(wn)
	}
	wg.Wait()

	var violFiles []string
	if !aborted.Load() {
		violFiles = runCold(p, env, self, workDir, total, m)
	}

	// Collect streamed violations.
	for wn := 0; wn < nworkers; wn++ {
		violFiles = append(violFiles, filepath.Join(workDir, fmt.Sprintf("w%d.viol.jsonl", wn)))
	}
	for _, vf := range violFiles {
		f, err := os.Open(vf)
		if err != nil {
			continue
		}
		sc := bufio.NewScanner(f)
		sc.Buffer(make([]byte, 1<<20), 64<<20)
		for sc.Scan() {
			var v Violation
			if json.Unmarshal(sc.Bytes(), &v) == nil {
				m.Violations = append(m.Violations, &v)
			}
		}
		_ = f.Close()
	}

	if p.PostCheck != nil {
		p.PostCheck(m)
	}

	return report(p, env, m, time.Since(t0))
}

// stallLimit is how long one case may be in flight before it is taken out of
// its worker and run alone (the slowest cases of the drivers take seconds in
// the quick tier; one thorough case pauses for six minutes by design).
func stallLimit(t Tier) time.Duration {
	if v := os.Getenv("VERIF_STALL_S"); v != "" {
		if n, err := strconv.Atoi(v); err == nil && n > 0 {
			return time.Duration(n) * time.Second
		}
	}
	if t == Thorough {
		return 20 * time.Minute
	}

	return 3 * time.Minute
}

// runAlone runs one case as the only case of a process, with the stall limit
// as its budget.  It merges what the case observed and tells whether the case
// returned.
func runAlone(p *Prop, env *Env, self, workDir string, idx int, m *Merged, mu *sync.Mutex) (returned bool) {
	dir := filepath.Join(workDir, fmt.Sprintf("alone%d", idx))
	if os.MkdirAll(dir, 0o755) != nil {
		return true
	}
	ef, _ := os.Create(filepath.Join(dir, "stderr"))
	cmd := exec.Command(self,
		"-prop", p.ID, "-tier", string(env.Tier), "-seed", strconv.FormatInt(env.Seed, 10),
		"-worker", "0", "-nworkers", "1", "-work", dir, "-start", strconv.Itoa(idx), "-count", "1",
		"-repo", env.RepoDir, "-verif", env.VerifDir)
	cmd.Stdout, cmd.Stderr = ef, ef
	cmd.Env = append(os.Environ(), "VERIF_WORKER=1")
	if err := cmd.Start(); err != nil {
		_ = ef.Close()

		return true
	}
	done := make(chan error, 1)
	go func() { done <- cmd.Wait() }()
	select {
	case werr := <-done:
		_ = ef.Close()
		var res workerResult
		rb, rerr := os.ReadFile(filepath.Join(dir, fmt.Sprintf("w0.result.%d.json", idx)))
		mu.Lock()
		defer mu.Unlock()
		if rerr == nil && werr == nil && json.Unmarshal(rb, &res) == nil {
			mergeResult(m, &res)
		} else {
			tail := tailFile(filepath.Join(dir, "stderr"), 60)
			v := &Violation{Property: p.ID, Seed: env.Seed, Tier: env.Tier, Index: idx, Sig: "process-death:" + deathSite(tail),
				Msg: fmt.Sprintf("process died (%v) while executing case %d alone\n%s", werr, idx, tail)}
			m.Violations = append(m.Violations, v)
			m.SigCount[v.Sig]++
		}
		if f, err := os.Open(filepath.Join(dir, "w0.viol.jsonl")); err == nil {
			sc := bufio.NewScanner(f)
			sc.Buffer(make([]byte, 1<<20), 64<<20)
			for sc.Scan() {
				var v Violation
				if json.Unmarshal(sc.Bytes(), &v) == nil {
					m.Violations = append(m.Violations, &v)
				}
			}
			_ = f.Close()
		}

		return true
	case <-time.After(stallLimit(env.Tier)):
		_ = cmd.Process.Kill()
		<-done
		_ = ef.Close()

		return false
	}
}

// coldIndexes returns the cases that are run once more in fresh processes.
func coldIndexes(p *Prop, env *Env, total int) (out []int) {
	if p.Cold != nil {
		out = append(out, p.Cold(env.Tier)...)
	}
	n := 24
	if env.Tier == Thorough {
		n = 160
	}
	seen := map[int]bool{}
	for _, i := range out {
		seen[i] = true
	}
	for j := 0; j < n && len(seen) < total; j++ {
		i := int(CaseSeed(env.Seed, p.ID+"/cold", j) % int64(total))
		if !seen[i] {
			seen[i] = true
			out = append(out, i)
		}
	}

	return out
}

// runCold runs each cold case as the only case of a process of its own, the
// way a worker runs its cases, and merges what they observed.  It returns the
// violation logs of those processes.
func runCold(p *Prop, env *Env, self, workDir string, total int, m *Merged) (violFiles []string) {
	idxs := coldIndexes(p, env, total)
	var mu sync.Mutex
	var wg sync.WaitGroup
	sem := make(chan struct{}, runtime.NumCPU())
	for j, idx := range idxs {
		dir := filepath.Join(workDir, fmt.Sprintf("cold%d", j))
		if os.MkdirAll(dir, 0o755) != nil {
			continue
		}
		violFiles = append(violFiles, filepath.Join(dir, "w0.viol.jsonl"))
		wg.Add(1)
		sem <- struct{}{}
		go func(idx int, dir string) {
			defer wg.Done()
			defer func() { <-sem }()
			stderrPath := filepath.Join(dir, "stderr")
			ef, _ := os.Create(stderrPath)
			cmd := exec.Command(self,
				"-prop", p.ID, "-tier", string(env.Tier), "-seed", strconv.FormatInt(env.Seed, 10),
				"-worker", "0", "-nworkers", "1", "-work", dir, "-start", strconv.Itoa(idx), "-count", "1",
				"-repo", env.RepoDir, "-verif", env.VerifDir)
			cmd.Stdout, cmd.Stderr = ef, ef
			cmd.Env = append(os.Environ(), "VERIF_WORKER=1")
			done := make(chan error, 1)
			if err := cmd.Start(); err != nil {
				_ = ef.Close()

				return
			}
			go func() { done <- cmd.Wait() }()
			var werr error
			timedOut := false
			select {
			case werr = <-done:
			case <-time.After(stallLimit(env.Tier)):
				timedOut = true
				_ = cmd.Process.Kill()
				werr = <-done
			}
			_ = ef.Close()
			mu.Lock()
			defer mu.Unlock()
			rb, rerr := os.ReadFile(filepath.Join(dir, fmt.Sprintf("w0.result.%d.json", idx)))
			var res workerResult
			if rerr == nil && werr == nil && json.Unmarshal(rb, &res) == nil {
				// Only what is specific to the cold run is merged: the case itself
				// has been counted by the worker that ran it in sequence.
				for k, v := range res.SigCount {
					m.SigCount[k] += v
				}
				for k, v := range res.Inconclusive {
					m.Inconclusive[k] += v
				}
				m.Events["cases_run_once_more_as_the_first_case_of_a_fresh_process"]++

				return
			}
			if timedOut {
				v := &Violation{
					Property: p.ID, Seed: env.Seed, Tier: env.Tier, Index: idx,
					Sig: "no-return",
					Msg: fmt.Sprintf("case %d does not return within %v when it is run as the first case of a fresh process", idx, stallLimit(env.Tier)),
				}
				m.Violations = append(m.Violations, v)
				m.SigCount[v.Sig]++

				return
			}
			tail := tailFile(stderrPath, 60)
			v := &Violation{
				Property: p.ID, Seed: env.Seed, Tier: env.Tier, Index: idx,
				Sig: "process-death:" + deathSite(tail),
				Msg: fmt.Sprintf("a fresh process died (%v) while executing case %d as its first case\n%s", werr, idx, tail),
			}
			m.Violations = append(m.Violations, v)
			m.SigCount[v.Sig]++
		}(idx, dir)
	}
	wg.Wait()

	return violFiles
}

func mergeResult(m *Merged, r *workerResult) {
	m.Cases += r.Cases
	m.Evals += r.Evals
	for _, k := range r.NonTrivial {
		m.NonTrivial[k] = struct{}{}
	}
	for k, v := range r.Events {
		m.Events[k] += v
	}
	for k, v := range r.Inconclusive {
		m.Inconclusive[k] += v
	}
	for _, s := range r.Samples {
		if len(m.Samples) < 6 {
			m.Samples = append(m.Samples, s)
		}
	}
	for k, v := range r.SigCount {
		m.SigCount[k] += v
	}
}

func tailFile(path string, n int) string {
	b, err := os.ReadFile(path)
	if err != nil {
		return ""
	}
	// Keep the head of a Go crash report: it names the fatal error and the
	// faulting goroutine.
	lines := strings.Split(string(b), "\n")
	if len(lines) > n {
		lines = lines[:n]
	}

	return strings.Join(lines, "\n")
}

func deathSite(tail string) string {
	for _, l := range strings.Split(tail, "\n") {
		if strings.HasPrefix(l, "fatal error:") || strings.HasPrefix(l, "panic:") {
			return strings.TrimSpace(l)
		}
	}
	for _, l := range strings.Split(tail, "\n") {
		if strings.Contains(l, "DATA RACE") {
			return "data-race"
		}
	}

	return "unknown"
}

// report prints the verdict lines, writes replay files and the evidence file,
// and returns the exit code.
func report(p *Prop, env *Env, m *Merged, wall time.Duration) int {
	known := loadKnown(env.VerifDir)
	replayDir := filepath.Join(env.VerifDir, "replays")
	evidenceDir := filepath.Join(env.VerifDir, "evidence")
	if d := os.Getenv("VERIF_OUT_DIR"); d != "" {
		// Runs against a scratch copy of the repository (mutants) must not
		// overwrite the evidence of the real tree.
		replayDir = filepath.Join(d, "replays")
		evidenceDir = filepath.Join(d, "evidence")
	}
	_ = os.MkdirAll(replayDir, 0o755)

	seenSig := map[string]bool{}
	knownPrinted := map[string]bool{}
	nViol := 0
	nKnown := 0
	for _, v := range m.Violations {
		if kf := matchKnown(known, v); kf != nil {
			nKnown++
			key := kf.Property + "/" + kf.Tag
			if !knownPrinted[key] {
				knownPrinted[key] = true
				fmt.Printf("KNOWN-FINDING: property=%s %s\n", p.ID, kf.What)
			}

			continue
		}
		nViol++
		if seenSig[v.Sig] {
			continue
		}
		seenSig[v.Sig] = true
		name := fmt.Sprintf("%s-%s-%016x.json", p.ID, env.Tier, Hash64(v.Sig))
		path := filepath.Join(replayDir, name)
		b, _ := json.MarshalIndent(v, "", " ")
		_ = os.WriteFile(path, b, 0o644)
		fmt.Printf("VIOLATION property=%s replay=%s\n", p.ID, path)
		msg := v.Msg
		if ls := strings.Split(msg, "\n"); len(ls) > 10 {
			msg = strings.Join(ls[:10], "\n") + "\n..."
		}
		if len(msg) > 1500 {
			msg = msg[:1500] + "..."
		}
		fmt.Printf("  sig=%s count=%d case=%d\n  %s\n", v.Sig, m.SigCount[v.Sig], v.Index, strings.ReplaceAll(msg, "\n", "\n  "))
	}

	minNT := p.MinNonTrivial
	if minNT == 0 {
		minNT = 2
	}
	verdict := "held"
	switch {
	case nViol > 0:
		verdict = "violated"
	case m.ForceInconclusive != "":
		verdict = "inconclusive: " + m.ForceInconclusive
	case len(m.NonTrivial) < minNT:
		verdict = fmt.Sprintf("inconclusive: only %d distinct non-trivial cases observed (minimum %d)", len(m.NonTrivial), minNT)
	case m.Inconclusive["watchdog"] > 0 || m.Inconclusive["restart-limit"] > 0 || m.Inconclusive["worker-start-failure"] > 0:
		verdict = "inconclusive: part of the case list was not executed"
	}

	cov := map[string]any{
		"evaluations":         m.Evals,
		"distinct_nontrivial": len(m.NonTrivial),
		"rule":                p.Rule,
		"samples":             m.Samples,
		"cases":               m.Cases,
		"cases_planned":       p.Cases(env.Tier),
		"events":              m.Events,
		"inconclusive":        m.Inconclusive,
		"verdict":             verdict,
		"known_findings_seen": nKnown,
	}
	if p.Exhaustive != nil && p.Exhaustive(env.Tier) && m.Cases == int64(p.Cases(env.Tier)) {
		cov["exhaustive"] = true
	}
	if len(m.Notes) > 0 {
		cov["notes"] = m.Notes
	}
	if len(m.Samples) == 0 {
		cov["samples"] = []any{}
	}
	ev := map[string]any{
		"property_id": p.ID,
		"tier":        string(env.Tier),
		"seed":        env.Seed,
		"level":       p.Level,
		"coverage":    cov,
		"assumptions": p.Assumptions,
		"wall_s":      wall.Seconds(),
		"violations":  nViol,
	}
	b, _ := json.MarshalIndent(ev, "", " ")
	_ = os.MkdirAll(evidenceDir, 0o755)
	_ = os.WriteFile(filepath.Join(evidenceDir, p.ID+".json"), append(b, '\n'), 0o644)

	evs := &bytes.Buffer{}
	for _, k := range sortedKeys(m.Events) {
		fmt.Fprintf(evs, " %s=%d", k, m.Events[k])
	}
	fmt.Printf("%s %s seed=%d: verdict=%s cases=%d evaluations=%d distinct_nontrivial=%d violations=%d known=%d wall=%.1fs\n",
		p.ID, env.Tier, env.Seed, verdict, m.Cases, m.Evals, len(m.NonTrivial), nViol, nKnown, wall.Seconds())
	if evs.Len() > 0 {
		fmt.Printf("  events:%s\n", evs.String())
	}
	if len(m.Inconclusive) > 0 {
		fmt.Printf("  inconclusive: %v\n", m.Inconclusive)
	}
	for _, n := range m.Notes {
		fmt.Printf("  note: %s\n", n)
	}

	if nViol > 0 {
		return 1
	}

	return 0
}

func matchKnown(known []KnownFinding, v *Violation) *KnownFinding {
	for i := range known {
		k := &known[i]
		if k.Kind != "known" || k.Property != v.Property || k.Tag == "" {
			continue
		}
		for _, t := range v.Tags {
			if t == k.Tag {
				return k
			}
		}
	}

	return nil
}
