package props

import (
	"fmt"
	"strings"

	"github.com/AdguardTeam/urlfilter"
	"github.com/AdguardTeam/urlfilter/rules"

	"verifharness/internal/core"
	"verifharness/internal/util"
)

// C09: effective DNS rewrites apply every matching exception, in any order.

// c09Shape is the specification-side description of one $dnsrewrite rule.
type c09Shape struct {
	Name      string // short name for witnesses
	Value     string // text after "dnsrewrite=" ("" with Empty)
	Empty     bool   // empty-valued (only generated as an exception)
	Exception bool
	Important bool
	MixKw     bool // spelling only: the response-code keyword of a full form in mixed case
	ImpLast   bool // spelling only: $dnsrewrite...,important instead of $important,dnsrewrite...
	// Canonical value: exactly one of CNAME / RCode!=NOERROR / (RR, Val).
	CNAME string
	RCode string
	RR    string
	Val   string
}

func (s c09Shape) text() string {
	t := "||example.com^$"
	if s.Exception {
		t = "@@" + t
	}
	if s.Important && !s.ImpLast {
		t += "important,"
	}
	if s.Empty {
		t += "dnsrewrite"
	} else if s.MixKw && strings.HasPrefix(s.Value, "NOERROR;") {
		// (keywords are case-insensitive)
		t += "dnsrewrite=NoError;" + s.Value[len("NOERROR;"):]
	} else {
		t += "dnsrewrite=" + s.Value
	}
	if s.Important && s.ImpLast {
		// The other order of the two modifiers means the same.
		t += ",important"
	}

	return t
}

// sameValue implements "the same new CNAME, or the same response code and,
// for successful responses, the same record type and value".
func c09SameValue(e, r c09Shape) bool {
	if e.CNAME != "" {
		return r.CNAME == e.CNAME
	}
	if r.CNAME != "" {
		// A new-CNAME rewrite carries nothing else (response code success, no
		// record type), so only a keyword NOERROR exception could name it;
		// that one is not generated as an exception (see DESIGN, C09 contract).
		return false
	}
	if e.RCode != r.RCode {
		return false
	}
	if e.RCode != "NOERROR" {
		return true
	}

	return e.RR == r.RR && e.Val == r.Val
}

func c09Disables(e, r c09Shape) bool {
	if !e.Important && r.Important {
		return false
	}

	return e.Empty || c09SameValue(e, r)
}

func c09Reference(seq []c09Shape) (out []int) {
	for i, r := range seq {
		if r.Exception {
			continue
		}
		disabled := false
		for _, e := range seq {
			if e.Exception && c09Disables(e, r) {
				disabled = true

				break
			}
		}
		if !disabled {
			out = append(out, i)
		}
	}

	return out
}

var c09Values = []c09Shape{
	{Name: "A1", Value: "1.1.1.1", RCode: "NOERROR", RR: "A", Val: "1.1.1.1"},
	{Name: "A2", Value: "NOERROR;A;2.2.2.2", RCode: "NOERROR", RR: "A", Val: "2.2.2.2"},
	{Name: "A1full", Value: "NOERROR;A;1.1.1.1", RCode: "NOERROR", RR: "A", Val: "1.1.1.1"},
	{Name: "AAAA", Value: "::1", RCode: "NOERROR", RR: "AAAA", Val: "::1"},
	{Name: "CN", Value: "new.example.net", CNAME: "new.example.net"},
	{Name: "CNfull", Value: "NOERROR;CNAME;new.example.net", CNAME: "new.example.net"},
	{Name: "CN2", Value: "other.example.net", CNAME: "other.example.net"},
	// The same names in another letter case are other values.
	{Name: "CNupper", Value: "NEW.example.net", CNAME: "NEW.example.net"},
	{Name: "CNmixedfull", Value: "NOERROR;CNAME;New.Example.NET", CNAME: "New.Example.NET"},
	{Name: "TXTupper", Value: "NOERROR;TXT;HELLO", RCode: "NOERROR", RR: "TXT", Val: "HELLO"},
	{Name: "REFUSED", Value: "REFUSED", RCode: "REFUSED"},
	{Name: "REFUSEDfull", Value: "REFUSED;;", RCode: "REFUSED"},
	{Name: "NXDOMAIN", Value: "NXDOMAIN;;", RCode: "NXDOMAIN"},
	{Name: "TXT", Value: "NOERROR;TXT;hello", RCode: "NOERROR", RR: "TXT", Val: "hello"},
	{Name: "TXT2", Value: "NOERROR;TXT;world", RCode: "NOERROR", RR: "TXT", Val: "world"},
	{Name: "MX", Value: "NOERROR;MX;10 mail.example.net", RCode: "NOERROR", RR: "MX", Val: "10 mail.example.net"},
	{Name: "MX2", Value: "NOERROR;MX;20 mail.example.net", RCode: "NOERROR", RR: "MX", Val: "20 mail.example.net"},
	{Name: "SRV", Value: "NOERROR;SRV;1 2 80 srv.example.net", RCode: "NOERROR", RR: "SRV", Val: "1 2 80 srv.example.net"},
	{Name: "HTTPS", Value: "NOERROR;HTTPS;1 . alpn=h3", RCode: "NOERROR", RR: "HTTPS", Val: "1 . alpn=h3"},
	{Name: "HTTPS2", Value: "NOERROR;HTTPS;1 . alpn=h2", RCode: "NOERROR", RR: "HTTPS", Val: "1 . alpn=h2"},
	{Name: "SVCB", Value: "NOERROR;SVCB;1 svc.example.net", RCode: "NOERROR", RR: "SVCB", Val: "1 svc.example.net"},
	{Name: "PTR", Value: "NOERROR;PTR;ptr.example.net.", RCode: "NOERROR", RR: "PTR", Val: "ptr.example.net."},
	// Response codes, also extended ones (>= 16).
	{Name: "SERVFAIL", Value: "SERVFAIL", RCode: "SERVFAIL"},
	{Name: "BADKEY", Value: "BADKEY;;", RCode: "BADKEY"},
	{Name: "BADTIME", Value: "BADTIME;;", RCode: "BADTIME"},
	{Name: "NOTAUTH", Value: "NOTAUTH;;", RCode: "NOTAUTH"},
	{Name: "BADCOOKIE", Value: "badcookie;;", RCode: "BADCOOKIE"},
	// Structured values that differ in one sub-field only.
	{Name: "HTTPSx", Value: "NOERROR;HTTPS;1 . alpn=h3 port=8443", RCode: "NOERROR", RR: "HTTPS", Val: "1 . alpn=h3 port=8443"},
	{Name: "HTTPS0", Value: "NOERROR;HTTPS;1 .", RCode: "NOERROR", RR: "HTTPS", Val: "1 ."},
	{Name: "SVCB0", Value: "NOERROR;SVCB;2 .", RCode: "NOERROR", RR: "SVCB", Val: "2 ."},
	{Name: "SVCB0p", Value: "NOERROR;SVCB;2 . alpn=h2", RCode: "NOERROR", RR: "SVCB", Val: "2 . alpn=h2"},
	{Name: "SRV2", Value: "NOERROR;SRV;1 2 81 srv.example.net", RCode: "NOERROR", RR: "SRV", Val: "1 2 81 srv.example.net"},
	{Name: "MX3", Value: "NOERROR;MX;10 mail2.example.net", RCode: "NOERROR", RR: "MX", Val: "10 mail2.example.net"},
	{Name: "TXT3", Value: "NOERROR;TXT;hello2", RCode: "NOERROR", RR: "TXT", Val: "hello2"},
	// (text that itself contains the field separator)
	{Name: "TXTsemi", Value: "NOERROR;TXT;v=DMARC1;p=none", RCode: "NOERROR", RR: "TXT", Val: "v=DMARC1;p=none"},
	{Name: "TXTsemi2", Value: "NOERROR;TXT;v=DMARC1;p=reject", RCode: "NOERROR", RR: "TXT", Val: "v=DMARC1;p=reject"},
	{Name: "TXTsemi3", Value: "NOERROR;TXT;v=DMARC1", RCode: "NOERROR", RR: "TXT", Val: "v=DMARC1"},
	{Name: "AAAA2", Value: "NOERROR;AAAA;::2", RCode: "NOERROR", RR: "AAAA", Val: "::2"},
	// Record types without a value parser: the type is kept, the value is nil.
	{Name: "NS", Value: "NOERROR;NS;ns1.example.net", RCode: "NOERROR", RR: "NS", Val: ""},
	{Name: "SOA", Value: "NOERROR;SOA;whatever", RCode: "NOERROR", RR: "SOA", Val: ""},
	{Name: "NOERRORkw", Value: "NOERROR", RCode: "NOERROR", RR: "", Val: ""},
}

func c09Variant(name string, exc, imp bool) c09Shape {
	if name == "EMPTY" {
		return c09Shape{Name: c09Nm("EMPTY", true, imp), Empty: true, Exception: true, Important: imp}
	}
	for _, v := range c09Values {
		if v.Name == name {
			v.Exception = exc
			v.Important = imp
			v.Name = c09Nm(name, exc, imp)

			return v
		}
	}
	panic("no shape " + name)
}

func c09Nm(n string, exc, imp bool) string {
	if exc {
		n = "@@" + n
	}
	if imp {
		n += "!"
	}

	return n
}

var (
	// c09Alpha16 is the alphabet of the exhaustive part (length 0..4).
	c09Alpha16 []c09Shape
	// c09Alpha7 is the reduced alphabet for lengths 5 and 6.
	c09Alpha7 []c09Shape
	// c09Full is every shape in every variant.
	c09Full []c09Shape
)

func init() {
	c09Alpha16 = []c09Shape{
		c09Variant("A1", false, false), c09Variant("A1", false, true),
		c09Variant("A1", true, false), c09Variant("A1", true, true),
		c09Variant("A2", false, false), c09Variant("A2", true, false),
		c09Variant("CN", false, false), c09Variant("CNfull", true, false),
		c09Variant("REFUSED", false, false), c09Variant("REFUSEDfull", true, false),
		c09Variant("MX", false, false), c09Variant("MX", true, false),
		c09Variant("EMPTY", true, false), c09Variant("EMPTY", true, true),
		c09Variant("HTTPS", false, false), c09Variant("HTTPS", true, false),
		c09Variant("NS", false, false), c09Variant("NS", true, false),
	}
	c09Alpha7 = []c09Shape{
		c09Variant("A1", false, false), c09Variant("A1", true, false),
		c09Variant("A2", false, true), c09Variant("A2", true, false),
		c09Variant("MX", false, false), c09Variant("MX", true, false),
		c09Variant("EMPTY", true, false),
	}
	for _, v := range c09Values {
		for _, exc := range []bool{false, true} {
			if exc && v.Name == "NOERRORkw" {
				continue // a keyword NOERROR exception is a declared don't-care
			}
			for _, imp := range []bool{false, true} {
				c09Full = append(c09Full, c09Variant(v.Name, exc, imp))
			}
		}
	}
	c09Full = append(c09Full, c09Variant("EMPTY", true, false), c09Variant("EMPTY", true, true))
}

// c09Exhaustive describes the exhaustive blocks: all sequences of length
// lo..hi over an alphabet.
type c09Block struct {
	alpha  []c09Shape
	lo, hi int
	count  int
}

func c09Pow(b, e int) int {
	r := 1
	for i := 0; i < e; i++ {
		r *= b
	}

	return r
}

func c09Blocks(t core.Tier) []c09Block {
	bl := []c09Block{{alpha: c09Alpha16, lo: 0, hi: 4}}
	if t == core.Thorough {
		bl = append(bl, c09Block{alpha: c09Alpha7, lo: 5, hi: 6})
		bl = append(bl, c09Block{alpha: c09Alpha16[:16], lo: 5, hi: 5})
	}
	for i := range bl {
		for l := bl[i].lo; l <= bl[i].hi; l++ {
			bl[i].count += c09Pow(len(bl[i].alpha), l)
		}
	}

	return bl
}

const c09Batch = 64

func c09ExhaustiveCases(t core.Tier) int {
	n := 0
	for _, b := range c09Blocks(t) {
		n += (b.count + c09Batch - 1) / c09Batch
	}

	return n
}

func c09Sampled(t core.Tier) int {
	if t == core.Thorough {
		return 1000000
	}

	return 6000
}

// c09Decode returns the n-th sequence of a block.
func c09Decode(b c09Block, n int) []c09Shape {
	for l := b.lo; l <= b.hi; l++ {
		cnt := c09Pow(len(b.alpha), l)
		if n < cnt {
			seq := make([]c09Shape, l)
			for i := l - 1; i >= 0; i-- {
				seq[i] = b.alpha[n%len(b.alpha)]
				n /= len(b.alpha)
			}

			return seq
		}
		n -= cnt
	}
	panic("bad sequence number")
}

type c09Witness struct {
	Via       string   `json:"via"`
	Sequence  []string `json:"sequence"`
	Rules     []string `json:"rules"`
	Got       []string `json:"got"`
	Reference []string `json:"reference"`
}

func c09Names(seq []c09Shape) []string {
	out := make([]string, len(seq))
	for i, s := range seq {
		out[i] = s.Name
	}

	return out
}

// c09Judge compares the observed DNSRewrites() with the reference filter.
func c09Judge(c *core.Ctx, via string, seq []c09Shape, got []*rules.NetworkRule, objs []*rules.NetworkRule) {
	c.Eval(1)
	ref := c09Reference(seq)
	texts := make([]string, len(seq))
	for i, s := range seq {
		texts[i] = s.text()
	}
	var refTexts []string
	for _, i := range ref {
		refTexts = append(refTexts, texts[i])
	}
	gotTexts := util.Texts(got)

	nExc, nRw := 0, 0
	for _, s := range seq {
		if s.Exception {
			nExc++
		} else {
			nRw++
		}
	}
	if nExc > 0 && nRw > 0 {
		c.NonTrivial(core.Hash64(c09Names(seq)...))
	}
	if len(ref) < nRw {
		c.Event("sequences_with_disabled_rewrite", 1)
	}
	if nExc > 1 {
		c.Event("sequences_with_several_exceptions", 1)
	}

	if util.EqualStrings(gotTexts, refTexts) {
		// Same texts in the same order; with rule objects at hand also check
		// identity and order by pointer.
		if objs != nil {
			for k, i := range ref {
				if got[k] != objs[i] {
					c.Violation("wrong-object:"+via, nil, c09Witness{via, c09Names(seq), texts, gotTexts, refTexts},
						"DNSRewrites returned a different rule object at position %d for sequence %v", k, c09Names(seq))

					return
				}
			}
		}

		return
	}

	sig := "mismatch"
	for _, g := range got {
		if g != nil && g.Whitelist {
			sig = "exception-returned"
		}
	}
	if sig == "mismatch" {
		switch {
		case len(util.Diff(gotTexts, refTexts)) > 0:
			sig = "disabled-rewrite-returned"
		case len(util.Diff(refTexts, gotTexts)) > 0:
			sig = "effective-rewrite-missing"
		default:
			sig = "order-or-multiplicity"
		}
	}
	c.Violation(sig+":"+via, nil, c09Witness{via, c09Names(seq), texts, gotTexts, refTexts},
		"DNSRewrites() of %v\n got  %v\n want %v", texts, gotTexts, refTexts)
}

// c09Spelling writes, in one evaluation of two, the $important modifier of
// every rule of the sequence after $dnsrewrite.
func c09Spelling(c *core.Ctx, seq []c09Shape) []c09Shape {
	mode := c.Rng.Intn(4)
	if mode == 0 {
		return seq
	}
	out := append([]c09Shape(nil), seq...)
	for i := range out {
		out[i].ImpLast = mode&1 != 0
		// (one rule of a pair only, so that an exception and its rewrite are
		// spelled differently)
		out[i].MixKw = mode&2 != 0 && (i%2 == 0 || mode == 3)
	}
	if mode&1 != 0 {
		c.Event("sequences_with_important_written_last", 1)
	}
	if mode&2 != 0 {
		c.Event("sequences_with_mixed_case_keywords", 1)
	}

	return out
}

func c09RunSeq(c *core.Ctx, seq []c09Shape) {
	seq = c09Spelling(c, seq)
	objs := make([]*rules.NetworkRule, len(seq))
	for i, s := range seq {
		r, err := rules.NewNetworkRule(s.text(), 1)
		if err != nil {
			c.Violation("parse-error", nil, s.text(), "rewrite rule %q rejected: %v", s.text(), err)

			return
		}
		objs[i] = r
	}
	res := &urlfilter.DNSResult{NetworkRules: append([]*rules.NetworkRule(nil), objs...)}
	all := res.DNSRewritesAll()
	c.Eval(1)
	if len(all) != len(objs) {
		c.Violation("rewrites-all-mismatch", nil, c09Names(seq), "DNSRewritesAll returned %d of %d rewrite rules", len(all), len(objs))

		return
	}
	got := res.DNSRewrites()
	c09Judge(c, "DNSResult", seq, got, objs)
	// The input of DNSRewrites must stay intact (C13 checks this broadly).
	for i := range objs {
		if res.NetworkRules[i] != objs[i] {
			c.Violation("input-mutated", nil, c09Names(seq), "DNSRewrites changed DNSResult.NetworkRules at %d", i)

			break
		}
	}
	if c.Rng.Intn(3) == 0 {
		// The result of a query holds every matching rule, not only rewrites:
		// rules without the modifier (blocking, exception, important ones) are
		// not rewrite shapes and have no say in which rewrites are effective.
		var mixed []*rules.NetworkRule
		var names []string
		for i := 0; i <= len(objs); i++ {
			for c.Rng.Intn(3) == 0 {
				t := c09Bystanders[c.Rng.Intn(len(c09Bystanders))]
				b, err := rules.NewNetworkRule(t, 1)
				if err != nil {
					panic(err)
				}
				mixed = append(mixed, b)
				names = append(names, t)
			}
			if i < len(objs) {
				mixed = append(mixed, objs[i])
			}
		}
		if len(names) > 0 {
			res2 := &urlfilter.DNSResult{NetworkRules: mixed}
			c.Event("results_with_rules_that_are_not_rewrites", 1)
			c09Judge(c, "DNSResult(next to "+strings.Join(names, " ")+")", seq, res2.DNSRewrites(), objs)
		}
	}
	if c.WantSample() && len(seq) >= 3 && c.Rng.Intn(50) == 0 {
		c.Sample(map[string]any{"sequence": c09Names(seq), "effective": util.Texts(got)})
	}
}

// c09Bystanders are rules that match example.com and carry no $dnsrewrite.
var c09Bystanders = []string{
	"||example.com^", "@@||example.com^", "||example.com^$important", "@@||example.com^$important", "@@||example.com^$important,dnstype=A",
	"example.com", "@@||example.com^$dnstype=A", "|example.com^$important,denyallow=other.org", "@@example.com$important,client=~nobody",
}

// c09RunEngine pushes a sequence through a DNS engine; the order of
// DNSRewritesAll() is whatever the engine produces.
func c09RunEngine(c *core.Ctx, seq []c09Shape) {
	seq = c09Spelling(c, seq)
	// Distinct rule texts only: the engine legitimately de-duplicates.
	seen := map[string]bool{}
	byText := map[string]c09Shape{}
	var lines []string
	for _, s := range seq {
		if seen[s.text()] {
			continue
		}
		seen[s.text()] = true
		byText[s.text()] = s
		lines = append(lines, s.text())
	}
	stored := lines
	if c.Rng.Intn(3) == 0 {
		stored = append([]string(nil), lines...)
		for i, n := 0, 1+c.Rng.Intn(3); i < n; i++ {
			at := c.Rng.Intn(len(stored) + 1)
			stored = append(stored[:at], append([]string{c09Bystanders[c.Rng.Intn(len(c09Bystanders))]}, stored[at:]...)...)
		}
		c.Event("engine_lists_with_rules_that_are_not_rewrites", 1)
	}
	eng := urlfilter.NewDNSEngine(util.StorageSplit(c.Rng, stored))
	res, _ := eng.MatchRequest(&urlfilter.DNSRequest{Hostname: "example.com", DNSType: 1})
	all := res.DNSRewritesAll()
	if len(all) != len(lines) {
		c.Violation("engine-lost-rewrite", nil, lines, "engine returned %d of %d rewrite rules for example.com: %v", len(all), len(lines), util.Texts(all))

		return
	}
	eseq := make([]c09Shape, len(all))
	for i, r := range all {
		s, ok := byText[r.RuleText]
		if !ok {
			c.Violation("engine-unknown-rule", nil, lines, "engine returned unknown rule %q", r.RuleText)

			return
		}
		eseq[i] = s
	}
	c09Judge(c, "DNSEngine", eseq, res.DNSRewrites(), all)
	if c.Rng.Intn(3) == 0 && len(seq) > 0 {
		// A result is a plain value: callers merge the rules of a second
		// source (another engine, user rules) into it before asking for the
		// effective rewrites, which are then those of the merged rules.
		var extra []c09Shape
		for i, n := 0, 1+c.Rng.Intn(3); i < n; i++ {
			extra = append(extra, seq[c.Rng.Intn(len(seq))])
		}
		merged := append([]*rules.NetworkRule(nil), res.NetworkRules...)
		mseq := append([]c09Shape(nil), eseq...)
		for _, x := range extra {
			r, err := rules.NewNetworkRule(x.text(), 2)
			if err != nil {
				return
			}
			merged = append(merged, r)
			mseq = append(mseq, x)
		}
		if c.Rng.Intn(2) == 0 {
			res.NetworkRules = merged
		} else {
			res.NetworkRules = append(res.NetworkRules, merged[len(res.NetworkRules):]...)
		}
		all2 := res.DNSRewritesAll()
		if len(all2) != len(mseq) {
			// (rules that are not rewrites sit between them; positions differ)
			return
		}
		c.Event("engine_results_merged_with_other_rules", 1)
		c09Judge(c, "DNSEngine(result merged with other rules)", mseq, res.DNSRewrites(), all2)
	}
}

func init() {
	core.Register(&core.Prop{
		ID:    "C09",
		Level: "exploration",
		Rule: "all sequences of length 0..4 over an 18-symbol alphabet of rewrite shapes (A short/full, CNAME short/full, RCODE, MX, HTTPS, NS (a type without value parser) x important x exception, empty exceptions) " +
			"[thorough: also length 5..6 over 7 symbols and length 5 over 16], plus PRNG-sampled sequences of length 5..12 (one in four: 13..52) over all ~90 shape variants, each fed as fresh rule objects to DNSResult.DNSRewrites and, sampled, through DNSEngine.MatchRequest; " +
			"one sequence in three is also evaluated next to matching rules that are not rewrites (plain, exception, important, $dnstype, $client ones), directly and through the engine; " +
			"one engine result in three is merged with freshly parsed rules (NetworkRules assigned or appended to) before the effective rewrites are asked for; " +
			"oracle = reference filter of DNSRewritesAll() compared as sequences of rule texts (and object identity); non-trivial = sequence with at least one exception and one rewrite; distinct by sequence",
		Assumptions: []string{
			"a keyword NOERROR exception parses to the empty value; it is not generated as an exception (declared don't-care)",
			"value equality of structured records (MX, SRV, HTTPS/SVCB) is by content, as the statement says 'the same record type and value'",
			"$badfilter on rewrite rules belongs to C08",
		},
		Cases: func(t core.Tier) int { return c09ExhaustiveCases(t) + c09Sampled(t) },
		Run: func(c *core.Ctx, idx int) {
			n := idx
			for _, b := range c09Blocks(c.Env.Tier) {
				nb := (b.count + c09Batch - 1) / c09Batch
				if n < nb {
					for k := n * c09Batch; k < (n+1)*c09Batch && k < b.count; k++ {
						seq := c09Decode(b, k)
						c09RunSeq(c, seq)
						if k%97 == 0 {
							c09RunEngine(c, seq)
						}
					}
					c.Event("exhaustive_batches", 1)

					return
				}
				n -= nb
			}
			// Sampled part.
			for k := 0; k < 32; k++ {
				l := 5 + c.Rng.Intn(8)
				if k%4 == 3 {
					// Well beyond every small-slice special case of sorting and
					// partitioning helpers (insertion sort up to 12 elements,
					// growth steps of append): the order of the survivors counts.
					l = 13 + c.Rng.Intn(40)
				}
				seq := make([]c09Shape, l)
				// Bias towards a few values so that exceptions meet rewrites.
				pool := c09Full
				if c.Rng.Intn(3) > 0 {
					pool = nil
					fam := [][]string{{"HTTPS", "HTTPSx", "HTTPS0", "HTTPS2"}, {"SVCB", "SVCB0", "SVCB0p"}, {"MX", "MX2", "MX3"}, {"SRV", "SRV2"}, {"TXT", "TXT2", "TXT3", "TXTupper", "TXTsemi", "TXTsemi2", "TXTsemi3"}, {"CN", "CNfull", "CN2", "CNupper", "CNmixedfull"}, {"A1", "A2", "A1full"}, {"AAAA", "AAAA2"}, {"NS", "SOA", "NOERRORkw"}, {"REFUSED", "REFUSEDfull", "NXDOMAIN", "SERVFAIL", "BADKEY", "BADTIME", "NOTAUTH", "BADCOOKIE"}}[c.Rng.Intn(10)]
					for j := 0; j < 3+c.Rng.Intn(3); j++ {
						v := util.Pick(c.Rng, c09Values).Name
						if c.Rng.Intn(2) == 0 {
							v = fam[c.Rng.Intn(len(fam))]
						}
						for _, e := range []bool{false, true} {
							if e && v == "NOERRORkw" {
								continue
							}
							for _, i := range []bool{false, true} {
								pool = append(pool, c09Variant(v, e, i))
							}
						}
					}
					pool = append(pool, c09Variant("EMPTY", true, c.Rng.Intn(4) == 0))
				}
				for i := range seq {
					seq[i] = util.Pick(c.Rng, pool)
				}
				c09RunSeq(c, seq)
				if k%8 == 0 {
					c09RunEngine(c, seq)
				}
			}
			c.Event("sampled_batches", 1)
		},
	})
	_ = fmt.Sprint
	_ = strings.Join
}
