package props

import (
	"fmt"
	"net/netip"
	"os"
	"path/filepath"
	"regexp"
	"sort"
	"strconv"
	"strings"
	"sync"

	"github.com/AdguardTeam/urlfilter"
	"github.com/AdguardTeam/urlfilter/filterlist"
	"github.com/AdguardTeam/urlfilter/rules"

	"verifharness/internal/core"
	"verifharness/internal/gen"
	"verifharness/internal/mon"
	"verifharness/internal/ref"
	"verifharness/internal/util"
)

// C02: the DNS engine answer equals the reference resolution over all rules.

var c02Hosts = []string{"ads.com", "sub.ads.com", "xads.com", "ads.com.evil.org", "tracker.io", "cdn.tracker.io", "example.org", "a.example.org", "localhost", "1.2.3.4", "printer", "ads.co.uk", "bce.ca", "fe.abc.de", "feed.cafe", "реклама.example", "bücher.example", "счётчик.рф", gen.Label63 + ".com", "x." + gen.Label63 + ".example.org", "abc.cafe.de", "dead.beef", gen.DeepHost, "aaaaaa.example", "xyzxyzxy.com", "wwwwww.ads.com"}

// c02Applicable classifies a spec: must the DNS engine use it?
func c02Applicable(s *gen.Spec) ref.Tri {
	if len(s.Domains) > 0 || s.ThirdParty != 0 || len(s.DocOpts) > 0 || s.Stealth || s.Popup || s.Empty || s.Mp4 {
		return ref.No
	}
	if len(s.TypesP)+len(s.TypesR) > 0 || s.MatchCase {
		return ref.DontCare
	}

	return ref.Yes
}

type c02HostLine struct {
	text  string
	names []string
	v4    bool
}

type c02List struct {
	lines []string
	specs map[string]*gen.Spec // network rule text -> spec
	// exprs holds, for regular-expression rules derived from a host name, the
	// expression compiled independently of the library.
	exprs  map[string]*regexp.Regexp
	hosts  []c02HostLine
	nhosts []string // host names of interest
}

func c02MakeList(c *core.Ctx) *c02List {
	l := &c02List{specs: map[string]*gen.Spec{}, exprs: map[string]*regexp.Regexp{}}
	names := append([]string(nil), c02Hosts...)
	for i := 0; i < 3; i++ {
		g := gen.HostGroups[c.Rng.Intn(len(gen.HostGroups))]
		names = append(names, g...)
	}
	l.nhosts = names
	n := 4 + c.Rng.Intn(40)
	// One list in ten concentrates on a single name, so that dozens of rules
	// and host entries answer the same query.
	focus := ""
	if c.Rng.Intn(10) == 0 {
		focus = names[c.Rng.Intn(len(names))]
		n += 40 + c.Rng.Intn(60)
		c.Event("lists_focused_on_one_name", 1)
	}
	for i := 0; i < n; i++ {
		h := names[c.Rng.Intn(len(names))]
		if focus != "" && c.Rng.Intn(4) > 0 {
			h = focus
		}
		switch r := c.Rng.Intn(10); {
		case r < 5:
			s := &gen.Spec{Exception: c.Rng.Intn(4) == 0}
			s.Pattern = strings.ReplaceAll([]string{"||HOST^", "||HOST^", "|HOST|", "HOST^", "*HOST", "||HOST", "HOST|", "^HOST^", "://HOST", "|http://HOST"}[c.Rng.Intn(10)], "HOST", h)
			switch c.Rng.Intn(4) {
			case 0:
				// DNS-level modifiers only.
				gen.AddRandomMods(c.Rng, s, gen.ModKinds{DenyAllow: true, DNSType: true, CTag: true, Client: true, Important: true}, 0.35)
			case 1:
				// Browser-only modifiers: must be ignored.
				gen.AddRandomMods(c.Rng, s, gen.ModKinds{ThirdParty: true, Domain: true, Important: true}, 0.5)
				if s.Exception && c.Rng.Intn(3) == 0 {
					s.DocOpts = []string{[]string{"elemhide", "urlblock", "document", "genericblock", "jsinject"}[c.Rng.Intn(5)]}
				}
				if !s.Exception && c.Rng.Intn(4) == 0 {
					s.Popup = true
				}
			case 2:
				gen.AddRandomMods(c.Rng, s, gen.AllMods, 0.15)
			}
			if c.Rng.Intn(6) == 0 && len(s.DocOpts) == 0 && !s.Popup {
				v := []string{"1.2.3.4", "REFUSED", "new.example.net", ""}[c.Rng.Intn(4)]
				s.DNSRewrite = &v
			}
			t := s.Render(c.Rng)
			if !strings.Contains(t, "$") && !strings.ContainsAny(s.Pattern, "|^*:/") {
				continue // would be a bare-domain host rule
			}
			l.lines = append(l.lines, t)
			l.specs[t] = s
			if c.Rng.Intn(6) == 0 {
				tw := s.Clone()
				tw.Badfilter = true
				tt := tw.Render(c.Rng)
				l.lines = append(l.lines, tt)
				l.specs[tt] = tw
			}
		case r == 5 && c.Rng.Intn(2) == 0:
			// Rules whose whole texts collide under FastHash and that land in
			// the sequential table, plus hosts lines for a name they match.
			prefix := []string{"||a", "||s", "@@||t", "|h"}[c.Rng.Intn(4)]
			groups := gen.CollidingTails(prefix)
			if len(groups) == 0 {
				continue
			}
			g := groups[c.Rng.Intn(len(groups))]
			suffix := []string{"*.ru^", "*.ru^$important", "*.ru^$dnstype=A"}[c.Rng.Intn(3)]
			for _, t := range g {
				sp := &gen.Spec{Pattern: strings.TrimPrefix(prefix, "@@") + t + "*.ru^", Exception: strings.HasPrefix(prefix, "@@")}
				if strings.Contains(suffix, "important") {
					sp.Important = true
				}
				if strings.Contains(suffix, "dnstype") {
					sp.DNSTypes = []gen.Val{{Name: "A"}}
				}
				text := prefix + t + suffix
				l.lines = append(l.lines, text)
				l.specs[text] = sp
				name := strings.NewReplacer("||", "", "|", "", "@@", "").Replace(prefix+t) + "7.ru"
				l.nhosts = append(l.nhosts, name)
				if c.Rng.Intn(2) == 0 {
					l.lines = append(l.lines, "0.0.0.0 "+name)
					l.hosts = append(l.hosts, c02HostLine{"0.0.0.0 " + name, []string{name}, true})
				}
			}
		case r < 8:
			ip := c18IPs[c.Rng.Intn(len(c18IPs))]
			k := 1 + c.Rng.Intn(3)
			var ns []string
			for j := 0; j < k; j++ {
				ns = append(ns, names[c.Rng.Intn(len(names))])
			}
			if c.Rng.Intn(8) == 0 {
				// An entry written with capitals names that spelling (a host
				// rule matches its names as written); queries are lower-case.
				j := c.Rng.Intn(len(ns))
				if up := strings.ToUpper(ns[j][:1]) + ns[j][1:]; up != ns[j] {
					ns[j] = up
					c.Event("hosts_entries_written_with_capitals", 1)
				}
			}
			t := ip + " " + strings.Join(ns, []string{" ", "\t", "  "}[c.Rng.Intn(3)])
			if c.Rng.Intn(3) == 0 {
				// Trailing comments as hosts files have them, also quoting
				// rules of other kinds.
				t += []string{" # comment", " # comment", "\t# tab", " ## phishing", " # was: " + ns[0] + "##.banner", " #moved#@#old", " # see " + ns[0] + "#$#body { x }",
					" # a#?#b #%#c", "  #   ||" + ns[0] + "^", " # 0.0.0.0 other.example", " #! not a rule"}[c.Rng.Intn(11)]
			}
			l.lines = append(l.lines, t)
			l.hosts = append(l.hosts, c02HostLine{t, ns, !strings.Contains(ip, ":")})
		case r == 8:
			ascii := true
			for i := 0; i < len(h); i++ {
				ascii = ascii && h[i] < 0x80
			}
			// (a non-ASCII name is not a bare-domain host rule but a network
			// rule pattern)
			if ascii && (strings.Contains(h, ".") && !strings.ContainsAny(h, "0123456789") || h == "localhost" || h == "printer") {
				l.lines = append(l.lines, h)
				l.hosts = append(l.hosts, c02HostLine{h, []string{h}, true})
			}
		case r == 9 && c.Rng.Intn(2) == 0:
			// A regular-expression rule for one name: dots escaped, digits as
			// \d, here and there a letter as \w or a class, optionally
			// anchored (what it accepts is decided by the expression alone).
			var sb strings.Builder
			for i := 0; i < len(h); i++ {
				ch := h[i]
				switch {
				case ch == '.':
					sb.WriteString(`\.`)
				case ch >= '0' && ch <= '9':
					sb.WriteString(`\d`)
				case ch >= 'a' && ch <= 'z' && c.Rng.Intn(5) == 0:
					sb.WriteString([]string{`\w`, `[a-z]`, `\w\w?`, `.`}[c.Rng.Intn(4)])
				case ch >= 'a' && ch <= 'z' || ch == '-' || ch == '_':
					sb.WriteByte(ch)
				default:
					sb.Reset()
					i = len(h)
				}
			}
			if sb.Len() == 0 {
				break
			}
			expr := []string{"^", "", "^(www\\.)?"}[c.Rng.Intn(3)] + sb.String() + []string{"$", "", "\\.?$"}[c.Rng.Intn(3)]
			re, rerr := regexp.Compile("(?i)" + expr)
			if rerr != nil {
				break
			}
			text := []string{"/", "@@/"}[c.Rng.Intn(2)] + expr + "/"
			l.lines = append(l.lines, text)
			l.specs[text] = &gen.Spec{Pattern: "/" + expr + "/", Exception: strings.HasPrefix(text, "@@")}
			l.exprs[text] = re
			c.Event("regular_expression_rules_derived_from_a_name", 1)
		default:
			l.lines = append(l.lines, []string{"! comment", "", "example.org##.banner", "# c", "||bad^$nosuch"}[c.Rng.Intn(5)])
		}
	}
	if c.Rng.Intn(12) == 0 {
		// A hosts line with hundreds of aliases (longer than any read buffer)
		// and a rule with a very long value list; names near the end are asked.
		var names []string
		for i := 0; i < 260+c.Rng.Intn(200); i++ {
			names = append(names, "alias-"+strconv.Itoa(i)+".long.example")
		}
		text := "0.0.0.0 " + strings.Join(names, " ")
		at := c.Rng.Intn(len(l.lines) + 1)
		l.lines = append(l.lines[:at], append([]string{text}, l.lines[at:]...)...)
		l.hosts = append(l.hosts, c02HostLine{text, names, true})
		l.nhosts = append(l.nhosts, names[len(names)-1], names[len(names)-2], names[0], names[len(names)/2])
		c.Event("lists_with_a_hosts_line_longer_than_4k", 1)
	}

	return l
}

func c02RandomDNSReq(c *core.Ctx, l *c02List) *gen.Req {
	q := &gen.Req{HostnameReq: true, Host: l.nhosts[c.Rng.Intn(len(l.nhosts))]}
	// Aim at one of the rules sometimes.
	if len(l.specs) > 0 && c.Rng.Intn(2) == 0 {
		keys := make([]string, 0, len(l.specs))
		for k := range l.specs {
			keys = append(keys, k)
		}
		sort.Strings(keys)
		s := l.specs[keys[c.Rng.Intn(len(keys))]]
		t := gen.TargetedReq(c.Rng, s, "", 1)
		q.DNSType, q.ClientName, q.ClientIP, q.Tags = t.DNSType, t.ClientName, t.ClientIP, t.Tags
		for _, h := range l.nhosts {
			if strings.Contains(s.Pattern, h) && c.Rng.Intn(3) > 0 {
				q.Host = h
			}
		}
	} else {
		t := gen.RandomReq(c.Rng, 1)
		q.DNSType, q.ClientName, q.ClientIP, q.Tags = t.DNSType, t.ClientName, t.ClientIP, t.Tags
	}
	if c.Rng.Intn(5) == 0 {
		q.DNSType, q.ClientName, q.ClientIP, q.Tags = 0, "", netip.Addr{}, nil
	}
	switch c.Rng.Intn(12) {
	case 0:
		q.Host = "sub." + q.Host
	case 1:
		q.Host = q.Host[:len(q.Host)-1]
	case 2:
		q.Host = q.Host + "x"
	case 3:
		// Names nobody validated: labels in front of a listed name that hold
		// characters outside the host alphabet (a start-of-address mask does
		// not span them).
		q.Host = []string{"\u0440\u0435\u043a\u043b\u0430\u043c\u0430.", "*.", "a@b.", "x~y.", "a+b.", "_dmarc.", "a%20b."}[c.Rng.Intn(7)] + q.Host
		c.Event("queries_with_unusual_labels_in_front_of_a_listed_name", 1)
	case 4:
		if c.Rng.Intn(2) == 0 {
			// ... or that carry a port.
			q.Host = q.Host + []string{":53", ":443"}[c.Rng.Intn(2)]
		}
	}

	return q
}

type c02Witness struct {
	List    []string `json:"list"`
	Request *gen.Req `json:"request"`
	Field   string   `json:"field"`
	Got     any      `json:"got"`
	Want    any      `json:"want"`
}

func c02Rank(r *rules.NetworkRule) int {
	k := 0
	if r.Whitelist {
		k = 1
	}
	if r.IsOptionEnabled(rules.OptionImportant) {
		k += 2
	}

	return k
}

func c02HostTexts(hs []*rules.HostRule) []string {
	var out []string
	for _, h := range hs {
		out = append(out, h.RuleText)
	}

	return util.SortedSet(out)
}

// c02Judge compares one engine answer with the reference.  netRules are all
// network rules of the list (independently parsed), applicable tells for each
// whether the DNS engine must use it, class is the reference class of the basic
// rule ("" = do not check), hostLines are the hosts entries of the list.
func c02Judge(c *core.Ctx, list []string, q *gen.Req, res *urlfilter.DNSResult, matched bool,
	wantN []string, dontCare map[string]bool, wantClass string, wantV4, wantV6 []string, candidates map[string]bool) {
	c.Eval(1)
	bad := func(field string, got, want any) {
		c.Violation("dns-answer:"+field, nil, c02Witness{list, q, field, got, want}, "DNSEngine.MatchRequest(%s) over %d lines: %s = %v, reference %v", c01Short(q), len(list), field, got, want)
	}
	if res == nil {
		bad("result", "nil", "non-nil")

		return
	}
	gotN := util.SortedSet(util.Texts(res.NetworkRules))
	var gotNStrict, wantNStrict []string
	for _, t := range gotN {
		if !dontCare[t] {
			gotNStrict = append(gotNStrict, t)
		}
	}
	for _, t := range wantN {
		if !dontCare[t] {
			wantNStrict = append(wantNStrict, t)
		}
	}
	if !util.EqualStrings(gotNStrict, wantNStrict) {
		bad("NetworkRules", gotNStrict, wantNStrict)

		return
	}
	// (multiplicity is not judged, see C01: the statement compares sets)
	if len(res.NetworkRules) > len(gotN) {
		c.Event("answers_with_repeated_network_rules", 1)
	}
	gotClass := "none"
	if res.NetworkRule != nil {
		gotClass = []string{"block", "allow", "important-block", "important-allow"}[c02Rank(res.NetworkRule)]
	}
	if wantClass != "" && gotClass != wantClass {
		bad("NetworkRule class", gotClass+" ("+c08Text(res.NetworkRule)+")", wantClass)

		return
	}
	if res.NetworkRule != nil {
		if candidates != nil && !candidates[res.NetworkRule.RuleText] {
			bad("NetworkRule", res.NetworkRule.RuleText, "one of the effective candidates")
		}
		if len(res.HostRulesV4)+len(res.HostRulesV6) > 0 {
			bad("host rules next to a basic rule", c02HostTexts(append(res.HostRulesV4, res.HostRulesV6...)), "none")
		}
		if !matched {
			bad("matched", false, true)
		}

		return
	}
	if wantClass == "" {
		return
	}
	g4, g6 := c02HostTexts(res.HostRulesV4), c02HostTexts(res.HostRulesV6)
	if !util.EqualStrings(g4, wantV4) {
		bad("HostRulesV4", g4, wantV4)
	}
	if !util.EqualStrings(g6, wantV6) {
		bad("HostRulesV6", g6, wantV6)
	}
	if matched != (len(wantV4)+len(wantV6) > 0) {
		bad("matched", matched, len(wantV4)+len(wantV6) > 0)
	}
}

var c02ClassNames = []string{"block", "allow", "important-block", "important-allow"}

func c02Run(c *core.Ctx, idx int) {
	nReal := map[core.Tier]int{core.Quick: 48, core.Thorough: 1500}[c.Env.Tier]
	if idx < nReal {
		c02RunReal(c)

		return
	}
	l := c02MakeList(c)
	nl := 1 + c.Rng.Intn(3)
	parts := make([][]string, nl)
	for _, ln := range l.lines {
		k := c.Rng.Intn(nl)
		parts[k] = append(parts[k], ln)
	}
	var contents []string
	for _, p := range parts {
		contents = append(contents, util.LinesEOL(p, []string{"\n", "\n", "\r\n"}[c.Rng.Intn(3)]))
	}
	storage := util.Storage(contents...)
	// DNS-level filtering has no use for cosmetic rules: lists are commonly
	// loaded without them.
	ignoreCosmetic := c.Rng.Intn(2) == 0
	if ignoreCosmetic {
		if s, serr := util.StorageIDs(util.ListIDs(contents...), contents, true); serr == nil {
			storage = s
			c.Event("storages_loaded_without_cosmetic_rules", 1)
		}
	}
	if c.Rng.Intn(6) == 0 {
		// The same lists backed by files.
		if dir, derr := os.MkdirTemp(filepath.Join(c.Env.VerifDir, ".work"), "c02f."); derr == nil {
			defer os.RemoveAll(dir)
			var ls []filterlist.RuleList
			for i, content := range contents {
				fn := filepath.Join(dir, "list"+strconv.Itoa(i)+".txt")
				if os.WriteFile(fn, []byte(util.ChopEOL(content)), 0o644) != nil {
					break
				}
				fl, ferr := filterlist.NewFileRuleList(i, fn, ignoreCosmetic)
				if ferr != nil {
					break
				}
				ls = append(ls, fl)
			}
			if len(ls) == len(contents) {
				if fs, serr := filterlist.NewRuleStorage(ls); serr == nil {
					storage = fs
					defer fs.Close()
					c.Event("file_backed_storages", 1)
				}
			}
		}
	}
	eng := urlfilter.NewDNSEngine(storage)

	// Independently parsed rule objects for the reference.
	type nrule struct {
		r    *rules.NetworkRule
		spec *gen.Spec
	}
	var nrs []nrule
	var hrs []*rules.HostRule
	for _, ln := range l.lines {
		r, err := rules.NewRule(ln, 1)
		if err != nil || r == nil {
			continue
		}
		switch v := r.(type) {
		case *rules.NetworkRule:
			nrs = append(nrs, nrule{v, l.specs[ln]})
		case *rules.HostRule:
			hrs = append(hrs, v)
		}
	}

	for k := 0; k < 24; k++ {
		q := c02RandomDNSReq(c, l)
		dreq := &urlfilter.DNSRequest{Hostname: q.Host, DNSType: q.DNSType, ClientName: q.ClientName, ClientIP: q.ClientIP, SortedClientTags: q.Tags}
		before := mon.Snapshot()
		var res *urlfilter.DNSResult
		var matched bool
		if c.Guard("DNSEngine.MatchRequest", nil, c02Witness{List: l.lines, Request: q}, func() { res, matched = eng.MatchRequest(dreq) }) {
			continue
		}
		if q.DNSType == 0 && q.ClientName == "" && !q.ClientIP.IsValid() && len(q.Tags) == 0 {
			// The convenience entry point must agree with MatchRequest.
			r2, m2 := eng.Match(q.Host)
			c.Eval(1)
			if dd := c08Compare(c08DNSVerdict(res, matched, true), c08DNSVerdict(r2, m2, true), true); dd != "" || !util.EqualStrings(util.Sorted(util.Texts(res.NetworkRules)), util.Sorted(util.Texts(r2.NetworkRules))) {
				c.Violation("entry-points-differ", nil, c02Witness{List: l.lines, Request: q, Field: "Match vs MatchRequest"}, "DNSEngine.Match(%q) differs from MatchRequest with the same hostname: %s", q.Host, dd)
			}
			c.Event("match_vs_matchrequest", 1)
		}
		d := mon.Delta(before, mon.Snapshot())
		for n, v := range d {
			if strings.HasPrefix(n, "dns.") || strings.HasSuffix(n, ".candidate") {
				c.Event(n, v)
			}
		}

		// Reference.
		req := q.Build() // fresh request, not from the engine's pool
		var wantN []string
		dontCare := map[string]bool{}
		var items []c06Item
		for _, nr := range nrs {
			if nr.spec == nil {
				continue
			}
			app := c02Applicable(nr.spec)
			if app == ref.DontCare {
				dontCare[nr.r.RuleText] = true
				if !nr.r.IsHostLevelNetworkRule() {
					continue
				}
			} else if app == ref.No {
				continue
			}
			if re := l.exprs[nr.r.RuleText]; re != nil {
				c.Eval(1)
				if want, got := re.MatchString(q.Host), nr.r.Match(req); want != got {
					c.Violation("regexp-rule-differs-from-its-expression", nil, c02Witness{List: []string{nr.r.RuleText}, Request: q, Field: "Match"},
						"rule %q Match(host name %q) = %v, the expression says %v", nr.r.RuleText, q.Host, got, want)
				}
			}
			if l.exprs[nr.r.RuleText] == nil && !strings.HasPrefix(nr.spec.Pattern, "/") && !nr.spec.Badfilter {
				// "match the hostname" as the independent matcher of C04
				// understands it, where it has an opinion.
				if w := ref.Match(nr.spec, q); w != ref.DontCare {
					c.Eval(1)
					if got := nr.r.Match(req); got != (w == ref.Yes) {
						c.Violation("rule-match-differs-from-the-reference-matcher", nil, c02Witness{List: []string{nr.r.RuleText}, Request: q, Field: "Match", Got: got, Want: w == ref.Yes},
							"rule %q Match(host name request %s) = %v, the reference matcher says %v", nr.r.RuleText, c01Short(q), got, w == ref.Yes)
					}
				}
			}
			if nr.r.Match(req) {
				wantN = append(wantN, nr.r.RuleText)
				items = append(items, c06Item{Spec: nr.spec, Text: nr.r.RuleText})
			}
		}
		wantN = util.SortedSet(wantN)
		best := -1
		cands := map[string]bool{}
		for _, e := range c06Effective(items) {
			cands[e.Text] = true
			if r := c06Rank(e.Spec); r > best {
				best = r
			}
		}
		wantClass := "none"
		if best >= 0 {
			wantClass = c02ClassNames[best]
		}
		var w4, w6 []string
		for _, h := range l.hosts {
			for _, n := range h.names {
				if n == q.Host {
					if h.v4 {
						w4 = append(w4, h.text)
					} else {
						w6 = append(w6, h.text)
					}
				}
			}
		}
		c02Judge(c, l.lines, q, res, matched, wantN, dontCare, wantClass, util.SortedSet(w4), util.SortedSet(w6), cands)
		if len(wantN)+len(w4)+len(w6) > 0 {
			c.NonTrivial(core.Hash64(append([]string{q.Key()}, l.lines...)...))
		}
		c.Event("class_"+wantClass, 1)
		if len(wantN) > 16 {
			c.Event("requests_with_more_than_16_network_rules", 1)
		}
		if len(w4)+len(w6) > 16 {
			c.Event("requests_with_more_than_16_host_entries", 1)
		}
		if d["dns.host.candidate"] > d["dns.host.match"] {
			c.Event("host_hash_hit_rejected_by_match", 1)
		}
		if c.WantSample() && len(wantN) > 1 && c.Rng.Intn(200) == 0 {
			c.Sample(map[string]any{"list": l.lines, "request": q, "network_rules": wantN, "class": wantClass, "v4": w4, "v6": w6})
		}
	}
	// Empty hostname.
	res, matched := eng.MatchRequest(&urlfilter.DNSRequest{Hostname: ""})
	c.Eval(1)
	if matched || res == nil || res.NetworkRule != nil || len(res.NetworkRules)+len(res.HostRulesV4)+len(res.HostRulesV6) > 0 {
		c.Violation("empty-hostname", nil, l.lines, "empty hostname gives a non-empty result")
	}
	_ = hrs
}

var (
	c02RealOnce   sync.Once
	c02RealEngine *urlfilter.DNSEngine
	c02RealNet    []*rules.NetworkRule
	c02RealHosts  map[string][]*rules.HostRule
)

func c02Real(env *core.Env) {
	c02RealOnce.Do(func() {
		var ls []filterlist.RuleList
		for i, f := range []string{"testdata/hosts", "testdata/adguard_sdn_filter.txt"} {
			ls = append(ls, &filterlist.StringRuleList{ID: i + 1, RulesText: strings.Join(gen.ReadLines(env.RepoDir, f), "\n"), IgnoreCosmetic: true})
		}
		s, _ := filterlist.NewRuleStorage(ls)
		c02RealEngine = urlfilter.NewDNSEngine(s)
		c02RealHosts = map[string][]*rules.HostRule{}
		sc := s.NewRuleStorageScanner()
		for sc.Scan() {
			r, _ := sc.Rule()
			switch v := r.(type) {
			case *rules.NetworkRule:
				c02RealNet = append(c02RealNet, v)
			case *rules.HostRule:
				for _, h := range v.Hostnames {
					c02RealHosts[h] = append(c02RealHosts[h], v)
				}
			}
		}
	})
}

func c02RunReal(c *core.Ctx) {
	c02Real(c.Env)
	corp := gen.LoadCorpus(c.Env.RepoDir)
	if len(corp.Requests) == 0 || len(corp.Hosts) == 0 {
		c.Inconclusive("bundled corpora not found")

		return
	}
	for k := 0; k < 12; k++ {
		h := corp.Hosts[c.Rng.Intn(len(corp.Hosts))]
		switch c.Rng.Intn(6) {
		case 0:
			h = "sub." + h
		case 1:
			h = h[:len(h)-1]
		case 2:
			if i := strings.IndexByte(h, '.'); i > 0 {
				h = h[i+1:]
			}
		case 3:
			u := corp.Requests[c.Rng.Intn(len(corp.Requests))].URL
			h = ref.HostOf(u)
		}
		if h == "" {
			continue
		}
		q := &gen.Req{HostnameReq: true, Host: h, DNSType: 1}
		res, matched := c02RealEngine.MatchRequest(&urlfilter.DNSRequest{Hostname: h, DNSType: 1})
		req := q.Build()
		var wantN []string
		best := -1
		special := false
		cands := map[string]bool{}
		for _, r := range c02RealNet {
			if r.IsHostLevelNetworkRule() && r.Match(req) {
				wantN = append(wantN, r.RuleText)
				if r.IsOptionEnabled(rules.OptionBadfilter) {
					special = true
				}
				if r.DNSRewrite == nil {
					cands[r.RuleText] = true
					if k := c02Rank(r); k > best {
						best = k
					}
				}
			}
		}
		wantClass := "none"
		if best >= 0 {
			wantClass = c02ClassNames[best]
		}
		if special {
			wantClass = ""
			cands = nil
		}
		var w4, w6 []string
		for _, hr := range c02RealHosts[h] {
			if hr.IP.Is4() {
				w4 = append(w4, hr.RuleText)
			} else {
				w6 = append(w6, hr.RuleText)
			}
		}
		c02Judge(c, []string{"testdata/hosts", "testdata/adguard_sdn_filter.txt"}, q, res, matched, util.SortedSet(wantN), map[string]bool{}, wantClass, util.SortedSet(w4), util.SortedSet(w6), cands)
		if len(wantN)+len(w4)+len(w6) > 0 {
			c.NonTrivial(core.Hash64("real", h))
		}
		c.Event("real_requests", 1)
	}
	_ = fmt.Sprint
}

func init() {
	sizes := map[core.Tier]int{core.Quick: 48 + 12000, core.Thorough: 1500 + 1000000}
	core.Register(&core.Prop{
		ID:    "C02",
		Level: "exploration",
		Rule: "per case a list of 4..44 lines mixing adblock-style rules (DNS-level modifiers only / browser-only modifiers / any mix, $dnsrewrite, badfilter twins), hosts lines (IPv4, IPv6, several names, comments), bare domains and inert lines, over host names that include FastHash-colliding groups, split into 1..3 lists; 24 DNS requests per list varying record type, client name/IP, sorted tags and perturbed host names; plus testdata/hosts + adguard_sdn_filter.txt against real and perturbed host names; " +
			"half of the storages are loaded with IgnoreCosmetic, hosts lines carry trailing comments that quote rules of other kinds; " +
			"queries also carry labels outside the host alphabet in front of a listed name and ports; hosts entries written with capitals; lists saved without a final newline; oracle = scan of every rule with a fresh request (the rule's own Match, itself compared with the independent matcher of C04 for mask rules): NetworkRules as a text set, nil-ness and class of NetworkRule, membership in the effective candidates, host rules only without a basic rule and split by address family, matched flag, empty hostname; non-trivial = request with at least one expected rule; distinct by (request, list)",
		Assumptions: []string{
			"rules carrying only {important, badfilter, dnstype, dnsrewrite, ctag, client, denyallow} must be used, rules with $domain, third-/first-party, document-level or cosmetic exception options, stealth, popup, empty, mp4 must be ignored; content-type modifiers and match-case are don't-care (the engine's own IsHostLevelNetworkRule decides)",
			"NetworkRule.Match and HostRule names are the definition of 'matches the hostname'",
		},
		Setup: func(env *core.Env) {
			gen.Collisions()
			mon.Install()
		},
		Cases: func(t core.Tier) int { return sizes[t] },
		Run:   c02Run,
	})
}
