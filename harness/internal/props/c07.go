package props

import (
	"fmt"
	"os"
	"path/filepath"
	"regexp"
	"slices"
	"strings"
	"sync"

	"github.com/AdguardTeam/urlfilter"
	"github.com/AdguardTeam/urlfilter/filterlist"
	"github.com/AdguardTeam/urlfilter/rules"

	"verifharness/internal/core"
	"verifharness/internal/gen"
	"verifharness/internal/util"
)

// C07: rule priority is a strict weak order; the winner is never outranked.

type c07Rule struct {
	Spec  *gen.Spec
	Text  string
	Rule  *rules.NetworkRule
	Class int  // 3 important exception, 2 important block, 1 exception, 0 block
	Spec_ bool // has a permitted $domain
	NMods int  // number of modifier kinds/values as the statement counts them (for add-a-modifier only)
}

var (
	c07Pool     []*c07Rule
	c07PoolOnce sync.Once
)

func c07Class(s *gen.Spec) int {
	c := 0
	if s.Exception {
		c = 1
	}
	if s.Important {
		c += 2
	}

	return c
}

func c07Specific(s *gen.Spec) bool {
	for _, d := range s.Domains {
		if !d.Neg {
			return true
		}
	}

	return false
}

func c07Make(s *gen.Spec) *c07Rule {
	text := s.Render(nil)
	r, err := rules.NewNetworkRule(text, 1)
	if err != nil {
		panic(fmt.Sprintf("pool rule %q rejected: %v", text, err))
	}

	return &c07Rule{Spec: s, Text: text, Rule: r, Class: c07Class(s), Spec_: c07Specific(s)}
}

// c07BuildPool enumerates every combination of the features the comparison
// reads.
func c07BuildPool() {
	domains := [][]gen.Val{nil, {{Name: "d.com"}}, {{Name: "d.com", Neg: true}}, {{Name: "d.com"}, {Name: "e.com", Neg: true}}, {{Name: "d.*"}}, {{Name: "d.*"}, {Name: "e.*", Neg: true}}}
	types := []struct{ p, r []string }{
		{nil, nil}, {[]string{"script"}, nil}, {[]string{"script", "image"}, nil}, {nil, []string{"font"}}, {[]string{"script"}, []string{"font"}},
	}
	for _, exc := range []bool{false, true} {
		for _, imp := range []bool{false, true} {
			for _, dom := range domains {
				for _, ty := range types {
					for mask := 0; mask < 64; mask++ {
						s := &gen.Spec{Pattern: "||x.com^", Exception: exc, Important: imp, Domains: dom, TypesP: ty.p, TypesR: ty.r}
						if mask&1 != 0 {
							s.ThirdParty = 1
						}
						if mask&2 != 0 {
							s.MatchCase = true
						}
						if mask&4 != 0 {
							s.DNSTypes = []gen.Val{{Name: "A"}}
						}
						if mask&8 != 0 {
							s.CTags = []gen.Val{{Name: "device_pc"}}
						}
						if mask&16 != 0 {
							s.Clients = []gen.Client{gen.ClientNets[0]}
						}
						if mask&32 != 0 {
							s.DenyAllow = []string{"y.com"}
						}
						c07Pool = append(c07Pool, c07Make(s))
					}
				}
			}
		}
	}
}

// c07BuildBig adds rules with very many modifiers (every content type and
// more), generic and domain-specific, so that large modifier counts meet the
// class and specific-over-generic criteria.
func c07BuildBig() {
	all := append([]string(nil), gen.TypeList...)
	for _, exc := range []bool{false, true} {
		for _, imp := range []bool{false, true} {
			for _, dom := range [][]gen.Val{nil, {{Name: "d.com"}}, {{Name: "d.com", Neg: true}}} {
				for k, ty := range []struct{ p, r []string }{{all, nil}, {all[:10], nil}, {all[:6], all[6:]}, {nil, all}} {
					for mask := 0; mask < 8; mask++ {
						s := &gen.Spec{Pattern: "||x.com^", Exception: exc, Important: imp, Domains: dom, TypesP: ty.p, TypesR: ty.r}
						if mask&1 != 0 {
							s.ThirdParty = 1
						}
						if mask&2 != 0 {
							s.MatchCase = true
							s.CTags = []gen.Val{{Name: "device_pc"}}
						}
						if mask&4 != 0 {
							s.Clients = []gen.Client{gen.ClientNets[0]}
							s.DenyAllow = []string{"y.com"}
							s.DNSTypes = []gen.Val{{Name: "A"}}
						}
						_ = k
						c07Pool = append(c07Pool, c07Make(s))
					}
				}
			}
		}
	}
}

// c07BuildSpecial adds blocking rules with the content-replacing options
// ($empty, $mp4) and $popup, generic and domain-specific.
func c07BuildSpecial() {
	domains := [][]gen.Val{nil, {{Name: "d.com"}}, {{Name: "d.com", Neg: true}}, {{Name: "d.com"}, {Name: "e.com", Neg: true}}, {{Name: "d.*"}}}
	for _, imp := range []bool{false, true} {
		for _, dom := range domains {
			for kind := 0; kind < 3; kind++ {
				for mask := 0; mask < 4; mask++ {
					s := &gen.Spec{Pattern: "||x.com^", Important: imp, Domains: dom}
					switch kind {
					case 0:
						s.Empty = true
					case 1:
						s.Mp4 = true
					default:
						s.Popup = true
					}
					if mask&1 != 0 {
						s.ThirdParty = 1
					}
					if mask&2 != 0 {
						s.DNSTypes = []gen.Val{{Name: "A"}}
					}
					c07Pool = append(c07Pool, c07Make(s))
				}
			}
		}
	}
	// $client values of every kind (a name, a quoted name, a name with a slash
	// that is not an address prefix, addresses, prefixes): each is a modifier.
	for _, exc := range []bool{false, true} {
		for _, cl := range []gen.Client{gen.ClientNames[0], gen.ClientNames[4], {Text: "kids/tablet", Name: "kids/tablet"}, {Text: "10.0.0.0/33", Name: "10.0.0.0/33"}, gen.ClientNets[1], gen.ClientNets[5]} {
			for mask := 0; mask < 4; mask++ {
				s := &gen.Spec{Pattern: "||x.com^", Exception: exc, Clients: []gen.Client{cl}}
				if mask&1 != 0 {
					s.Domains = []gen.Val{{Name: "d.com"}}
				}
				if mask&2 != 0 {
					s.CTags = []gen.Val{{Name: "device_pc"}}
				}
				c07Pool = append(c07Pool, c07Make(s))
			}
		}
	}
}

type c07Witness struct {
	A string `json:"a"`
	B string `json:"b,omitempty"`
	C string `json:"c,omitempty"`
}

// c07Without returns s without its $client modifier, or nil.
func c07Without(s *gen.Spec) *gen.Spec {
	if len(s.Clients) == 0 {
		return nil
	}
	n := s.Clone()
	n.Clients = nil

	return n
}

// c07Adders returns copies of s with one more modifier of a kind it does not
// carry yet.
func c07Adders(s *gen.Spec) (out []*gen.Spec) {
	add := func(f func(n *gen.Spec)) {
		n := s.Clone()
		f(n)
		out = append(out, n)
	}
	if s.ThirdParty == 0 {
		add(func(n *gen.Spec) { n.ThirdParty = 1 })
		add(func(n *gen.Spec) { n.ThirdParty = -1 })
	}
	if !s.MatchCase {
		add(func(n *gen.Spec) { n.MatchCase = true })
	}
	if !s.Important {
		add(func(n *gen.Spec) { n.Important = true })
	}
	if len(s.Domains) == 0 {
		add(func(n *gen.Spec) { n.Domains = []gen.Val{{Name: "d.com"}} })
		add(func(n *gen.Spec) { n.Domains = []gen.Val{{Name: "d.com", Neg: true}} })
	}
	if len(s.DNSTypes) == 0 {
		add(func(n *gen.Spec) { n.DNSTypes = []gen.Val{{Name: "AAAA", Neg: true}} })
	}
	if len(s.CTags) == 0 {
		add(func(n *gen.Spec) { n.CTags = []gen.Val{{Name: "user_child"}} })
	}
	if len(s.Clients) == 0 {
		add(func(n *gen.Spec) { n.Clients = []gen.Client{gen.ClientNames[0]} })
	}
	if len(s.DenyAllow) == 0 {
		add(func(n *gen.Spec) { n.DenyAllow = []string{"z.com"} })
	}
	has := func(l []string, t string) bool {
		for _, e := range l {
			if e == t {
				return true
			}
		}

		return false
	}
	if !has(s.TypesP, "media") && !has(s.TypesR, "media") {
		if !s.Popup && len(s.DocOpts) == 0 {
			// (next to $popup or a document-level option an included content
			// type is replaced by {document}: it adds nothing)
			add(func(n *gen.Spec) { n.TypesP = append(n.TypesP, "media") })
		}
		add(func(n *gen.Spec) { n.TypesR = append(n.TypesR, "media") })
	}

	return out
}

const c07Rows = 16

func c07PairCases() int {
	c07Ensure()

	return (len(c07Pool) + c07Rows - 1) / c07Rows
}

// c07Ensure builds the pool on first use (not when the package is loaded: a
// process of another property must not have parsed rules before its first
// case does).
func c07Ensure() {
	c07PoolOnce.Do(func() {
		c07BuildPool()
		c07BuildBig()
		c07BuildSpecial()
	})
}

func init() {
	tripleCases := map[core.Tier]int{core.Quick: 64, core.Thorough: 60000}
	selCases := map[core.Tier]int{core.Quick: 3000, core.Thorough: 300000}
	core.Register(&core.Prop{
		ID:    "C07",
		Level: "exploration",
		Rule: fmt.Sprintf("pool = every combination of the features the comparison reads (exception x important x 6 $domain shapes (incl. wildcard-TLD only) x 5 content-type shapes x third-party x match-case x $dnstype x $ctag x $client x $denyallow, plus rules carrying 10..16 modifiers (all content types and more) and blocking rules with $empty / $mp4 / $popup; its size is events.pool_rules); " +
			"exhaustive over the pool: irreflexivity, asymmetry and agreement with class order / specific-over-generic for all ordered pairs, the winner of both selection functions on every ordered pair, add-one-modifier => strictly higher for every rule; " +
			"transitivity of > and of incomparability on all triples of PRNG-drawn 90-rule subsets; selection maximality for candidate lists of 2..5 rules in all permutations (one in thirty: 13..60 rules in 24 PRNG-drawn orders) through NewMatchingResult (also with a referrer-level $genericblock / $urlblock exception, winner maximal among the eligible candidates) and GetDNSBasicRule, and through NetworkEngine.Match / Engine.MatchRequest / DNSEngine.MatchRequest with the candidates spread over the three lookup tables (patterns that spell out http:// included; the DNS winner is compared with candidates established without the engine); " +
			"non-trivial = pool rule compared against the whole pool (its ordered pairs are counted in events.ordered_pairs), triple subset, or candidate list; distinct by the rule texts involved"),
		Assumptions: []string{
			"'exhaustive' is relative to the pool; document-level options are excluded from add-a-modifier because they replace the content-type set",
			"$redirect cannot be parsed by this version, so its priority term is not reachable",
		},
		Cases: func(t core.Tier) int { return c07PairCases() + tripleCases[t] + selCases[t] },
		Run: func(c *core.Ctx, idx int) {
			c07Ensure()
			pool := c07Pool
			if idx == 0 {
				c.Event("pool_rules", int64(len(pool)))
			}
			switch {
			case idx < c07PairCases():
				// Rows of the pair matrix.
				for i := idx * c07Rows; i < (idx+1)*c07Rows && i < len(pool); i++ {
					a := pool[i]
					c.Eval(1)
					if a.Rule.IsHigherPriority(a.Rule) {
						c.Violation("reflexive", nil, c07Witness{A: a.Text}, "%q outranks itself", a.Text)
					}
					c.NonTrivial(core.Hash64("row", a.Text))
					for j, b := range pool {
						ab := a.Rule.IsHigherPriority(b.Rule)
						ba := b.Rule.IsHigherPriority(a.Rule)
						c.Eval(1)
						if i != j {
							c.Event("ordered_pairs", 1)
						}
						// Selection from the two-element candidate list, through
						// both selection functions: the winner is never outranked.
						for _, via := range []string{"GetDNSBasicRule", "NewMatchingResult"} {
							pair := []*rules.NetworkRule{a.Rule, b.Rule}
							var w *rules.NetworkRule
							if via == "GetDNSBasicRule" {
								w = rules.GetDNSBasicRule(pair)
							} else {
								w = rules.NewMatchingResult(pair, nil).BasicRule
							}
							if w == nil || (w == a.Rule && ba) || (w == b.Rule && ab) || (w != a.Rule && w != b.Rule) {
								c.Violation("pair-winner-outranked:"+via, nil, c07Witness{A: a.Text, B: b.Text},
									"%s([%q, %q]) selected %q (a>b: %v, b>a: %v)", via, a.Text, b.Text, c08Text(w), ab, ba)
							}
						}
						c.Eval(2)
						if ab && ba {
							c.Violation("asymmetry", nil, c07Witness{A: a.Text, B: b.Text}, "%q and %q outrank each other", a.Text, b.Text)
						}
						switch {
						case a.Class > b.Class && !ab:
							c.Violation("class-order", nil, c07Witness{A: a.Text, B: b.Text}, "%q (class %d) does not outrank %q (class %d)", a.Text, a.Class, b.Text, b.Class)
						case a.Class == b.Class && a.Spec_ && !b.Spec_ && !ab:
							c.Violation("specific-over-generic", nil, c07Witness{A: a.Text, B: b.Text}, "domain-specific %q does not outrank generic %q of the same class", a.Text, b.Text)
						case a.Class == b.Class && a.Spec_ && !b.Spec_ && ba:
							c.Violation("generic-over-specific", nil, c07Witness{A: a.Text, B: b.Text}, "generic %q outranks domain-specific %q of the same class", b.Text, a.Text)
						}
					}
					// (and so does whatever $client value the rule carries)
					if s0 := c07Without(a.Spec); s0 != nil {
						b := c07Make(s0)
						c.Eval(1)
						if !a.Rule.IsHigherPriority(b.Rule) || b.Rule.IsHigherPriority(a.Rule) {
							c.Violation("add-modifier-not-higher", nil, c07Witness{A: b.Text, B: a.Text}, "%q (one more modifier: $client) is not strictly higher than %q", a.Text, b.Text)
						}
					}
					// Adding a modifier makes a rule strictly higher.
					for _, s2 := range c07Adders(a.Spec) {
						b := c07Make(s2)
						c.Eval(1)
						if !b.Rule.IsHigherPriority(a.Rule) || a.Rule.IsHigherPriority(b.Rule) {
							c.Violation("add-modifier-not-higher", nil, c07Witness{A: a.Text, B: b.Text}, "%q (one more modifier) is not strictly higher than %q", b.Text, a.Text)
						}
					}
				}
				if c.WantSample() && idx%50 == 3 {
					c.Sample(map[string]any{"pair_rows_from": pool[idx*c07Rows].Text, "rows": c07Rows, "against": len(pool)})
				}
			case idx < c07PairCases()+tripleCases[c.Env.Tier]:
				const n = 90
				sub := make([]*c07Rule, n)
				for i := range sub {
					sub[i] = pool[c.Rng.Intn(len(pool))]
				}
				gt := make([][]bool, n)
				for i := range gt {
					gt[i] = make([]bool, n)
					for j := range gt[i] {
						gt[i][j] = sub[i].Rule.IsHigherPriority(sub[j].Rule)
					}
				}
				inc := func(i, j int) bool { return !gt[i][j] && !gt[j][i] }
				for i := 0; i < n; i++ {
					for j := 0; j < n; j++ {
						for k := 0; k < n; k++ {
							if gt[i][j] && gt[j][k] && !gt[i][k] {
								c.Violation("transitivity", nil, c07Witness{sub[i].Text, sub[j].Text, sub[k].Text}, "a>b and b>c but not a>c: a=%q b=%q c=%q", sub[i].Text, sub[j].Text, sub[k].Text)
							}
							if inc(i, j) && inc(j, k) && !inc(i, k) {
								c.Violation("tie-transitivity", nil, c07Witness{sub[i].Text, sub[j].Text, sub[k].Text}, "a~b and b~c but a,c are ordered: a=%q b=%q c=%q", sub[i].Text, sub[j].Text, sub[k].Text)
							}
						}
					}
				}
				c.Eval(n * n * n)
				c.NonTrivial(core.Hash64("triples", sub[0].Text, sub[1].Text, sub[2].Text, sub[n-1].Text))
				c.Event("triples", n*n*n)
			case idx%2 == 0:
				c07EngineSelection(c)
			default:
				// Selection maximality over all permutations.
				k := 2 + c.Rng.Intn(4)
				if c.Rng.Intn(30) == 0 {
					// Long candidate lists, in 24 PRNG-drawn orders.
					k = 13 + c.Rng.Intn(48)
					c.Event("long_candidate_lists", 1)
				}
				cand := make([]*c07Rule, k)
				for i := range cand {
					cand[i] = pool[c.Rng.Intn(len(pool))]
				}
				var texts []string
				for _, r := range cand {
					texts = append(texts, r.Text)
				}
				// In one list of four a rule that no candidate equals stands next to
				// its $badfilter twin somewhere among the candidates: the two cancel
				// out and take no part in the selection.
				var pair []*rules.NetworkRule
				if c.Rng.Intn(4) == 0 {
					x := pool[c.Rng.Intn(len(pool))]
					same := false
					for _, cd := range cand {
						same = same || cd.Text == x.Text
					}
					if !same {
						t := x.Spec.Clone()
						t.Badfilter = true
						pair = []*rules.NetworkRule{x.Rule, c07Make(t).Rule}
						c.Event("candidate_lists_with_a_cancelled_pair", 1)
					}
				}
				var winners []*rules.NetworkRule
				each := func(f func(p []int)) { permute(k, f) }
				if k > 6 {
					each = func(f func(p []int)) {
						for i := 0; i < 24; i++ {
							f(c.Rng.Perm(k))
						}
					}
				}
				each(func(p []int) {
					rs := make([]*rules.NetworkRule, k)
					for i, pi := range p {
						rs[i] = cand[pi].Rule
					}
					given := rs
					for _, pr := range pair {
						at := c.Rng.Intn(len(given) + 1)
						given = append(given[:at:at], append([]*rules.NetworkRule{pr}, given[at:]...)...)
					}
					for _, via := range []string{"NewMatchingResult", "GetDNSBasicRule"} {
						var w *rules.NetworkRule
						if via == "NewMatchingResult" {
							w = rules.NewMatchingResult(append([]*rules.NetworkRule(nil), given...), nil).BasicRule
						} else {
							w = rules.GetDNSBasicRule(append([]*rules.NetworkRule(nil), given...))
						}
						c.Eval(1)
						if w == nil {
							c.Violation("no-winner", nil, texts, "%s selected nothing from %v", via, util.Texts(given))

							continue
						}
						if slices.Contains(pair, w) {
							c.Violation("cancelled-rule-selected", nil, map[string]any{"order": util.Texts(given), "winner": w.RuleText, "via": via},
								"%s over %v selected %q, which its $badfilter twin disables", via, util.Texts(given), w.RuleText)

							continue
						}
						for _, o := range rs {
							if o.IsHigherPriority(w) {
								c.Violation("winner-outranked", nil, map[string]any{"order": util.Texts(rs), "winner": w.RuleText, "outranked_by": o.RuleText, "via": via},
									"%s over %v selected %q although %q outranks it", via, util.Texts(rs), w.RuleText, o.RuleText)

								break
							}
						}
						winners = append(winners, w)
					}
				})
				// With a referrer-level exception some blocking candidates are not
				// eligible ($genericblock: those without a permitted domain,
				// $urlblock: all of them); the winner is maximal among the
				// eligible ones, whatever the ineligible ones are.
				for kind, srcRule := range c07SourceRules() {
					var eligible []*rules.NetworkRule
					for _, cd := range cand {
						if cd.Rule.Whitelist || (kind == "genericblock" && cd.Spec_) {
							eligible = append(eligible, cd.Rule)
						}
					}
					for trial := 0; trial < 3; trial++ {
						rs := make([]*rules.NetworkRule, k)
						for i, pi := range c.Rng.Perm(k) {
							rs[i] = cand[pi].Rule
						}
						w := rules.NewMatchingResult(append([]*rules.NetworkRule(nil), rs...), []*rules.NetworkRule{srcRule}).BasicRule
						c.Eval(1)
						via := "NewMatchingResult(referrer $" + kind + ")"
						switch {
						case w == nil && len(eligible) > 0:
							c.Violation("no-winner", nil, map[string]any{"order": util.Texts(rs), "via": via}, "%s selected nothing from %v although %d candidates are eligible", via, util.Texts(rs), len(eligible))
						case w != nil && !slices.Contains(eligible, w):
							c.Violation("ineligible-winner", nil, map[string]any{"order": util.Texts(rs), "winner": w.RuleText, "via": via}, "%s over %v selected %q, which the referrer exception disables", via, util.Texts(rs), w.RuleText)
						case w != nil:
							for _, o := range eligible {
								if o.IsHigherPriority(w) {
									c.Violation("winner-outranked", nil, map[string]any{"order": util.Texts(rs), "winner": w.RuleText, "outranked_by": o.RuleText, "via": via},
										"%s over %v selected %q although the eligible %q outranks it", via, util.Texts(rs), w.RuleText, o.RuleText)

									break
								}
							}
						}
					}
				}
				for _, w := range winners[1:] {
					if w.IsHigherPriority(winners[0]) || winners[0].IsHigherPriority(w) {
						c.Violation("winner-depends-on-order", nil, texts, "different orders of %v select %q and %q, which are not tied", texts, winners[0].RuleText, w.RuleText)

						break
					}
				}
				c.NonTrivial(core.Hash64(append([]string{"sel"}, texts...)...))
				c.Event("candidate_lists", 1)
			}
		},
	})
}

var c07SrcRules map[string]*rules.NetworkRule

// c07SourceRules returns the referrer-level exceptions by kind.
func c07SourceRules() map[string]*rules.NetworkRule {
	if c07SrcRules == nil {
		c07SrcRules = map[string]*rules.NetworkRule{}
		for _, k := range []string{"genericblock", "urlblock"} {
			r, err := rules.NewNetworkRule("@@||d.com^$"+k, 1)
			if err != nil {
				panic(err)
			}
			c07SrcRules[k] = r
		}
	}

	return c07SrcRules
}

// permute calls f with every permutation of 0..n-1.
func permute(n int, f func(p []int)) {
	p := make([]int, n)
	for i := range p {
		p[i] = i
	}
	var rec func(k int)
	rec = func(k int) {
		if k == n {
			f(p)

			return
		}
		for i := k; i < n; i++ {
			p[k], p[i] = p[i], p[k]
			rec(k + 1)
			p[k], p[i] = p[i], p[k]
		}
	}
	rec(0)
}

// c07EngineSelection checks selection maximality through the engines, with the
// candidates spread over the three lookup tables (long shortcut; any-URL
// shortcut + $domain; regular expression / short pattern without $domain): the
// rule returned by NetworkEngine.Match, Engine.MatchRequest and
// DNSEngine.MatchRequest must not be outranked by any rule of MatchAll.
func c07EngineSelection(c *core.Ctx) {
	k := 2 + c.Rng.Intn(4)
	var lines []string
	// Half of the lists consist of rules the DNS engine loads as well.
	dnsOnly := c.Rng.Intn(2) == 0
	for len(lines) < k {
		base := c07Pool[c.Rng.Intn(len(c07Pool))].Spec
		if dnsOnly && (len(base.Domains) > 0 || base.ThirdParty != 0 || base.MatchCase || len(base.TypesP) > 0) {
			continue
		}
		// Every candidate has to match the one request below.
		restrictedOnly := len(base.Domains) > 0 && !c07Specific(base)
		if restrictedOnly || len(base.TypesP) > 6 || len(base.TypesR) > 4 {
			continue
		}
		okTypes := true
		for _, t := range base.TypesR {
			okTypes = okTypes && t != "script"
		}
		if len(base.TypesP) > 0 {
			has := false
			for _, t := range base.TypesP {
				has = has || t == "script"
			}
			okTypes = okTypes && has
		}
		if !okTypes {
			continue
		}
		s := base.Clone()
		s.Pattern = []string{"||x.com^", "||x.com^", "|https://", "/x\\.com/", "x.c", "https://x.com/",
			// Patterns that spell out the scheme: the one a host name is asked
			// about with (hostname requests), without a pipe.
			"http://x.com^", "http://x.com/", "://x.com", "http://x.c", "ttp://x.com^",
			// Capital letters at the start of the shortcut (the request spells
			// them the same way, so $match-case rules match too).
			"/Ads/Banner", "/Ads/B", "x.com/Ads"}[c.Rng.Intn(14)]
		if s.MatchCase && s.Pattern == "/x\\.com/" {
			s.MatchCase = false
		}
		if (c07Specific(s) || len(s.CTags)+len(s.Clients)+len(s.DNSTypes)+len(s.DenyAllow) > 0) && c.Rng.Intn(4) == 0 {
			// Patterns that match any address are legal next to a restriction.
			s.Pattern = []string{"*", "|", "", "/.*/", "||"}[c.Rng.Intn(5)]
			if s.Pattern == "/.*/" {
				s.MatchCase = false
			}
		}
		lines = append(lines, s.Render(c.Rng))
	}
	srcURL := "https://d.com/"
	if !dnsOnly && c.Rng.Intn(4) == 0 {
		// The $domain values are public suffixes (a private one, a two-level
		// one), the referrer is a site below them.
		suffix := []string{"github.io", "co.uk", "blogspot.com"}[c.Rng.Intn(3)]
		for i, l := range lines {
			lines[i] = strings.NewReplacer("d.com", suffix, "e.com", "other."+suffix, "d.*", suffix, "e.*", "other."+suffix).Replace(l)
		}
		srcURL = "https://shop." + suffix + "/"
		c.Event("engine_selection_lists_with_public_suffix_domains", 1)
	}
	if c.Rng.Intn(4) == 0 {
		// One candidate gets a value list long enough for its line to exceed
		// the 4 KiB and 8 KiB read buffers (fillers in the polarity that changes
		// nothing; the modifiers after the list still count).
		re := regexp.MustCompile(`(domain|denyallow|ctag)=([^,]+)`)
		for _, i := range c.Rng.Perm(len(lines)) {
			m := re.FindStringSubmatchIndex(lines[i])
			if m == nil {
				continue
			}
			val := lines[i][m[4]:m[5]]
			neg := ""
			if strings.HasPrefix(val, "~") && !strings.Contains(val, "|") || strings.Count(val, "~") == strings.Count(val, "|")+1 {
				neg = "~"
			}
			var sb strings.Builder
			for k, n := 0, []int{230, 420}[c.Rng.Intn(2)]; k < n; k++ {
				fmt.Fprintf(&sb, "|%sfiller%d.example", neg, k)
			}
			if lines[i][m[2]:m[3]] == "ctag" {
				break
			}
			lines[i] = lines[i][:m[5]] + sb.String() + lines[i][m[5]:]
			c.Event("engine_selection_lists_with_a_line_longer_than_4k", 1)

			break
		}
	}
	if c.Rng.Intn(6) == 0 {
		// A blocking rule and an exception whose whole texts have the same
		// 32-bit hash (both without an index key: they meet in the sequential
		// table), next to the other candidates.
		if pairs := gen.CrossCollisions("x.c$ctag=~", "@@x.c$ctag=~", 400000); len(pairs) > 0 {
			p := pairs[c.Rng.Intn(len(pairs))]
			lines = append(lines, p[0], p[1])
			c.Event("engine_selection_lists_with_hash_colliding_rule_texts", 1)
		}
	}
	req := rules.NewRequest("https://x.com/Ads/Banner", srcURL, rules.TypeScript)
	req.DNSType = 1
	req.ClientIP = gen.ClientNets[0].Prefix.Addr()
	req.SortedClientTags = []string{"device_pc"}
	nl := 1 + c.Rng.Intn(3)
	parts := make([][]string, nl)
	for _, l := range util.Shuffle(c.Rng, lines) {
		i := c.Rng.Intn(nl)
		parts[i] = append(parts[i], l)
	}
	var contents []string
	for _, p := range parts {
		contents = append(contents, util.Lines(p))
	}
	storageOf := func() *filterlist.RuleStorage { return util.Storage(contents...) }
	if c.Rng.Intn(3) == 0 {
		// The same lists backed by files (rules are read again from the file
		// when they are looked up).
		if dir, derr := os.MkdirTemp(filepath.Join(c.Env.VerifDir, ".work"), "c07f."); derr == nil {
			defer os.RemoveAll(dir)
			ids := util.ListIDs(contents...)
			var opened []*filterlist.RuleStorage
			defer func() {
				for _, s := range opened {
					_ = s.Close()
				}
			}()
			storageOf = func() *filterlist.RuleStorage {
				var ls []filterlist.RuleList
				for i, content := range contents {
					fn := filepath.Join(dir, fmt.Sprintf("l%d-%d.txt", len(opened), i))
					if os.WriteFile(fn, []byte(util.ChopEOL(content)), 0o644) != nil {
						return util.Storage(contents...)
					}
					fl, ferr := filterlist.NewFileRuleList(ids[i], fn, false)
					if ferr != nil {
						return util.Storage(contents...)
					}
					ls = append(ls, fl)
				}
				s, serr := filterlist.NewRuleStorage(ls)
				if serr != nil {
					return util.Storage(contents...)
				}
				opened = append(opened, s)

				return s
			}
			c.Event("engine_selection_lists_backed_by_files", 1)
		}
	}
	ne := urlfilter.NewNetworkEngine(storageOf())
	eng := urlfilter.NewEngine(storageOf())
	// The candidates, established without any engine: every line parsed on its
	// own and asked whether it matches.
	var all []*rules.NetworkRule
	for _, l := range lines {
		if r, perr := rules.NewNetworkRule(l, 0); perr == nil && r.Match(req) {
			all = append(all, r)
		}
	}
	c.Eval(1)
	if len(all) < 2 {
		c.Event("engine_selection_fewer_than_two_candidates", 1)

		return
	}
	check := func(via string, w *rules.NetworkRule) {
		c.Eval(1)
		if w == nil {
			c.Violation("no-winner:"+via, nil, lines, "%s selected nothing although %d rules match: %v", via, len(all), util.Texts(all))

			return
		}
		for _, o := range all {
			if o.IsHigherPriority(w) {
				c.Violation("winner-outranked:"+via, nil, map[string]any{"lists": contents, "winner": w.RuleText, "outranked_by": o.RuleText, "via": via},
					"%s selected %q although the matching rule %q outranks it (lists %q)", via, w.RuleText, o.RuleText, contents)

				return
			}
		}
	}
	w1, _ := ne.Match(req)
	check("NetworkEngine.Match", w1)
	// The order is a function of the rule texts: rule objects that have been
	// through matching compare like freshly parsed ones.
	fresh := make([]*rules.NetworkRule, len(all))
	for i, r := range all {
		fresh[i], _ = rules.NewNetworkRule(r.RuleText, r.FilterListID)
	}
	for i, a := range all {
		for j, b := range all {
			if fresh[i] == nil || fresh[j] == nil {
				continue
			}
			c.Eval(1)
			if used, fr := a.IsHigherPriority(b), fresh[i].IsHigherPriority(fresh[j]); used != fr {
				c.Violation("priority-changes-with-use", nil, c07Witness{A: a.RuleText, B: b.RuleText},
					"%q > %q is %v for the rule objects the engine returned and %v for freshly parsed ones", a.RuleText, b.RuleText, used, fr)
			}
		}
	}
	check("Engine.MatchRequest", eng.MatchRequest(req).BasicRule)
	// The DNS entry point has a selection function of its own.
	de := urlfilter.NewDNSEngine(storageOf())
	dres, _ := de.MatchRequest(&urlfilter.DNSRequest{Hostname: "x.com", DNSType: 1, ClientIP: req.ClientIP, SortedClientTags: req.SortedClientTags})
	// The candidates of the DNS engine, established without it: every line that
	// it loads (host-level rules), asked whether it matches the host name.
	hreq := rules.NewRequestForHostname("x.com")
	hreq.DNSType, hreq.ClientIP, hreq.SortedClientTags = 1, req.ClientIP, req.SortedClientTags
	var hostAll []*rules.NetworkRule
	for _, l := range lines {
		if r, perr := rules.NewNetworkRule(l, 0); perr == nil && r.IsHostLevelNetworkRule() && r.Match(hreq) {
			hostAll = append(hostAll, r)
		}
	}
	if len(hostAll) >= 2 {
		c.Eval(1)
		c.Event("dns_engine_selection_lists_with_independent_candidates", 1)
		if w := dres.NetworkRule; w == nil {
			c.Violation("no-winner:DNSEngine.MatchRequest", nil, lines, "DNSEngine.MatchRequest selected nothing although %d rules match: %v", len(hostAll), util.Texts(hostAll))
		} else {
			for _, o := range hostAll {
				if o.IsHigherPriority(w) {
					c.Violation("winner-outranked:DNSEngine.MatchRequest", nil, map[string]any{"lists": contents, "winner": w.RuleText, "outranked_by": o.RuleText},
						"DNSEngine.MatchRequest selected %q although the matching rule %q outranks it (lists %q)", w.RuleText, o.RuleText, contents)

					break
				}
			}
		}
	}
	if len(dres.NetworkRules) >= 2 {
		c.Eval(1)
		c.Event("dns_engine_selection_lists", 1)
		w := dres.NetworkRule
		if w == nil {
			c.Violation("no-winner:DNSEngine.MatchRequest", nil, lines, "DNSEngine.MatchRequest selected nothing although %d rules match: %v", len(dres.NetworkRules), util.Texts(dres.NetworkRules))
		} else {
			for _, o := range dres.NetworkRules {
				if o.IsHigherPriority(w) {
					c.Violation("winner-outranked:DNSEngine.MatchRequest", nil, map[string]any{"lists": contents, "winner": w.RuleText, "outranked_by": o.RuleText},
						"DNSEngine.MatchRequest selected %q although the matching rule %q outranks it (lists %q)", w.RuleText, o.RuleText, contents)

					break
				}
			}
		}
	}
	c.NonTrivial(core.Hash64(append([]string{"engine-sel"}, lines...)...))
	c.Event("engine_selection_lists", 1)
}
