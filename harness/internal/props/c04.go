package props

import (
	"strings"

	"github.com/AdguardTeam/urlfilter/rules"

	"verifharness/internal/core"
	"verifharness/internal/gen"
	"verifharness/internal/ref"
)

// C04: a rule matches iff its pattern and every modifier are satisfied.

type c04Entry struct {
	text string
	s    *gen.Spec
	q    *gen.Req
	want bool
}

var (
	c04Seen  []c04Entry
	c04Cases int
)

type c04Witness struct {
	Rule      string    `json:"rule"`
	Spec      *gen.Spec `json:"spec"`
	Request   *gen.Req  `json:"request"`
	Got       bool      `json:"got"`
	Reference bool      `json:"reference"`
}

// c04Parse renders and parses a spec, cross-checking that the parser saw the
// intended pattern.  ok=false means that the case cannot be judged.
func c04Parse(c *core.Ctx, s *gen.Spec) (r *rules.NetworkRule, text string, ok bool) {
	if c.Rng.Intn(4) == 0 {
		// A line that is rejected only after most of its modifiers have been
		// loaded, parsed right before the rule under test: nothing of it may
		// leak into the next rule.
		p, _ := gen.RandomMaskSpec(c.Rng, gen.AllMods, 0.6)
		bad := p.Render(c.Rng)
		if strings.Contains(bad, "$") {
			bad += []string{",nosuchmodifier", ",domain=", ",dnstype=NOSUCHTYPE", ",client=", ",ctag=UPPER"}[c.Rng.Intn(5)]
			if _, err := rules.NewNetworkRule(bad, 1); err == nil {
				c.Inconclusive("poison-line-accepted")
			} else {
				c.Event("rejected_lines_parsed_before_a_rule", 1)
			}
		}
	}
	text = s.Render(c.Rng)
	var err error
	if c.Rng.Intn(2) == 0 {
		// The generic constructor (what scanners and storages use) must give
		// the same rule as the specific one.
		var gr rules.Rule
		gr, err = rules.NewRule(text, 1)
		if nr, isNet := gr.(*rules.NetworkRule); isNet && err == nil && nr != nil {
			r = nr
			c.Event("rules_parsed_through_NewRule", 1)
		}
	}
	if r == nil {
		r, err = rules.NewNetworkRule(text, 1)
	}
	if err != nil {
		c.Inconclusive("rule-rejected-by-parser")

		return nil, text, false
	}
	want := s.Pattern
	if strings.HasSuffix(want, "/*") {
		want = want[:len(want)-2] + "^"
	}
	if rules.VerifPattern(r) != want {
		c.Inconclusive("pattern-not-expressible")

		return nil, text, false
	}

	return r, text, true
}

func c04Decider(s *gen.Spec) []string {
	var kinds []string
	if s.ThirdParty != 0 {
		kinds = append(kinds, "third-party")
	}
	if len(s.TypesP)+len(s.TypesR) > 0 {
		kinds = append(kinds, "types")
	}
	if len(s.Domains) > 0 {
		kinds = append(kinds, "domain")
	}
	if len(s.DenyAllow) > 0 {
		kinds = append(kinds, "denyallow")
	}
	if len(s.DNSTypes) > 0 {
		kinds = append(kinds, "dnstype")
	}
	if len(s.CTags) > 0 {
		kinds = append(kinds, "ctag")
	}
	if len(s.Clients) > 0 {
		kinds = append(kinds, "client")
	}
	if s.MatchCase {
		kinds = append(kinds, "match-case")
	}

	return kinds
}

func init() {
	sizes := map[core.Tier]int{core.Quick: 40000, core.Thorough: 4000000}
	core.Register(&core.Prop{
		ID:    "C04",
		Level: "exploration",
		Rule: "per case 8 rules from the modifier grammar (mask pattern from a template vocabulary; any subset of third-party, content types, $domain, $denyallow, $dnstype, $ctag, $client, match-case with 1..6 values, negations, PRNG value and modifier order, quoted/escaped client names, IPv4/IPv6/CIDR) " +
			"x 16 requests drawn to sit on the boundaries of that rule's conditions (equal / subdomain / label-boundary neighbour / non-ICANN suffix hosts, addresses inside and just outside each prefix, tag subsets) both as URL and hostname requests; " +
			"oracle = reference evaluator over the spec with facts derived by net/url and publicsuffix; non-trivial = the reference pattern accepts the target and at least one modifier is present; distinct by (rule text, request)",
		Assumptions: []string{
			"hosts, $domain/$denyallow values and hostname-request names are lower-case (matching is byte-exact by design)",
			"IPv4-mapped and zoned client addresses and private-suffix hosts under name.* are don't-care",
			"the START_URL character class, the separator class and the '/name.' hostname exception are taken from the library documentation as specification",
			"only mask patterns: a regular-expression pattern has no independent reference",
		},
		Cases: func(t core.Tier) int { return sizes[t] },
		Run: func(c *core.Ctx, idx int) {
			if idx%16 == 5 {
				c04Twins(c)
			}
			c04Cases++
			if c04Cases%400 == 0 && len(c04Seen) > 0 && !c.Env.Replay {
				// Second use after a churn phase: earlier rules are created
				// again and must still give the reference answer.
				churnRules(c, 3000)
				for k := 0; k < 12; k++ {
					e := c04Seen[c.Rng.Intn(len(c04Seen))]
					r, err := rules.NewNetworkRule(e.text, 1)
					if err != nil {
						continue
					}
					got := r.Match(e.q.Build())
					c.Eval(1)
					if got != e.want {
						c.Violation("second-use-differs", nil, c04Witness{Rule: e.text, Spec: e.s, Request: e.q, Got: got, Reference: e.want},
							"rule %q created again after %d other rules: Match=%v, reference=%v", e.text, 3000, got, e.want)
					}
				}
				c.Event("second_use_rechecks_after_churn", 12)
			}
			for k := 0; k < 8; k++ {
				s, phost := gen.RandomMaskSpec(c.Rng, gen.AllMods, []float64{0.1, 0.3, 0.5}[c.Rng.Intn(3)])
				if c.Rng.Intn(6) == 0 && s.Exception {
					s.DocOpts = []string{[]string{"elemhide", "urlblock", "document", "genericblock"}[c.Rng.Intn(4)]}
				}
				r, text, ok := c04Parse(c, s)
				if !ok {
					continue
				}
				kinds := c04Decider(s)
				for _, kd := range kinds {
					c.Event("rules_with_"+kd, 1)
				}
				for j := 0; j < 16; j++ {
					q := gen.TargetedReq(c.Rng, s, phost, 0.3)
					want := ref.Match(s, q)
					if want == ref.DontCare {
						c.Event("dont_care", 1)

						continue
					}
					req := q.Build()
					var got bool
					w := c04Witness{Rule: text, Spec: s, Request: q, Reference: want == ref.Yes}
					if c.Guard("NetworkRule.Match", nil, w, func() { got = r.Match(req) }) {
						continue
					}
					c.Eval(1)
					if want == ref.Yes {
						c.Event("reference_yes", 1)
					} else {
						c.Event("reference_no", 1)
					}
					if len(kinds) > 0 && ref.CompileMask(s.Pattern, s.MatchCase).Match(ref.FactsOf(q, s.Pattern).Target) {
						c.NonTrivial(core.Hash64(text, q.Key()))
					}
					if got != (want == ref.Yes) {
						w.Got = got
						dir := "spurious-match"
						if !got {
							dir = "lost-match"
						}
						sig := dir + ":multi"
						if len(kinds) <= 1 {
							sig = dir + ":" + strings.Join(kinds, "")
						}
						c.Violation(sig, nil, w,
							"rule %q on request %+v: Match=%v, reference=%v", text, *q, got, want == ref.Yes)
					}
					if j == 0 {
						e := c04Entry{text, s, q, want == ref.Yes}
						if len(c04Seen) < 1024 {
							c04Seen = append(c04Seen, e)
						} else {
							c04Seen[c.Rng.Intn(len(c04Seen))] = e
						}
					}
					if c.WantSample() && want == ref.Yes && len(kinds) >= 2 {
						c.Sample(map[string]any{"rule": text, "request": q, "match": got})
					}
				}
			}
		},
	})
}

// c04Twins evaluates rules whose whole texts collide under FastHash and differ
// only in one value: a parse cache or table keyed by that hash must not mix
// them up.
func c04Twins(c *core.Ctx) {
	type variant struct {
		prefix, suffix string
		mk             func(t string) (*gen.Spec, *gen.Req)
	}
	vs := []variant{
		{"||ads.com^$domain=d", ".org", func(t string) (*gen.Spec, *gen.Req) {
			return &gen.Spec{Pattern: "||ads.com^", Domains: []gen.Val{{Name: "d" + t + ".org"}}},
				&gen.Req{URL: "http://ads.com/x", Source: "http://d" + t + ".org/", Type: rules.TypeScript}
		}},
		{"||ads.com^$ctag=t_", "", func(t string) (*gen.Spec, *gen.Req) {
			return &gen.Spec{Pattern: "||ads.com^", CTags: []gen.Val{{Name: "t_" + t}}},
				&gen.Req{URL: "http://ads.com/x", Type: rules.TypeScript, Tags: []string{"t_" + t}}
		}},
		{"||ads.com^$client=pc-", "", func(t string) (*gen.Spec, *gen.Req) {
			return &gen.Spec{Pattern: "||ads.com^", Clients: []gen.Client{{Text: "pc-" + t, Name: "pc-" + t}}},
				&gen.Req{HostnameReq: true, Host: "ads.com", ClientName: "pc-" + t}
		}},
		{"||h", ".com^$denyallow=x.org", func(t string) (*gen.Spec, *gen.Req) {
			return &gen.Spec{Pattern: "||h" + t + ".com^", DenyAllow: []string{"x.org"}},
				&gen.Req{HostnameReq: true, Host: "h" + t + ".com"}
		}},
	}
	v := vs[c.Rng.Intn(len(vs))]
	groups := gen.CollidingTails(v.prefix)
	if len(groups) == 0 {
		return
	}
	g := groups[c.Rng.Intn(len(groups))]
	type pair struct {
		s    *gen.Spec
		q    *gen.Req
		r    *rules.NetworkRule
		text string
	}
	var ps []pair
	for _, t := range g {
		s, q := v.mk(t)
		text := s.Render(nil)
		if text != v.prefix+t+v.suffix {
			c.Inconclusive("twin-text-not-as-intended")

			return
		}
		r, err := rules.NewNetworkRule(text, 1)
		if err != nil {
			c.Inconclusive("rule-rejected-by-parser")

			return
		}
		ps = append(ps, pair{s, q, r, text})
	}
	for _, a := range ps {
		for _, b := range ps {
			want := ref.Match(a.s, b.q)
			if want == ref.DontCare {
				continue
			}
			req := b.q.Build()
			var got bool
			w := c04Witness{Rule: a.text, Spec: a.s, Request: b.q, Reference: want == ref.Yes}
			if c.Guard("NetworkRule.Match", nil, w, func() { got = a.r.Match(req) }) {
				continue
			}
			c.Eval(1)
			if got != (want == ref.Yes) {
				w.Got = got
				c.Violation("hash-colliding-twin-mixed-up", nil, w, "rule %q on request %+v: Match=%v, reference=%v (another rule with a colliding text hash was created before)", a.text, *b.q, got, want == ref.Yes)
			}
		}
	}
	c.Event("hash_colliding_twin_groups", 1)
}
