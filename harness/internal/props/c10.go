package props

import (
	"fmt"
	"net/netip"
	"reflect"
	"sort"
	"strings"

	"github.com/AdguardTeam/urlfilter/rules"
	"github.com/miekg/dns"

	"verifharness/internal/core"
)

// C10: parsed $dnsrewrite values always have the published shape.

// c10Shape checks the published contract of a parsed rewrite; it returns a
// description of the first breach.
func c10Shape(d *rules.DNSRewrite) string {
	if d == nil {
		return "DNSRewrite is nil although the modifier was accepted"
	}
	if d.NewCNAME != "" {
		if d.RCode != 0 || d.RRType != 0 || d.Value != nil {
			return fmt.Sprintf("new-CNAME rewrite carries something else: rcode=%d rr=%d value=%#v", d.RCode, d.RRType, d.Value)
		}

		return ""
	}
	if d.RRType != 0 && d.RCode != dns.RcodeSuccess {
		return fmt.Sprintf("record type %d present with response code %d", d.RRType, d.RCode)
	}
	bad := func(want string) string {
		return fmt.Sprintf("record type %s (%d) with value of dynamic type %T (%#v), want %s", dns.TypeToString[d.RRType], d.RRType, d.Value, d.Value, want)
	}
	switch d.RRType {
	case dns.TypeA:
		a, ok := d.Value.(netip.Addr)
		if !ok || !a.IsValid() || !a.Is4() {
			return bad("valid IPv4 netip.Addr")
		}
	case dns.TypeAAAA:
		a, ok := d.Value.(netip.Addr)
		if !ok || !a.IsValid() || !a.Is6() {
			return bad("valid IPv6 netip.Addr")
		}
	case dns.TypeMX:
		v, ok := d.Value.(*rules.DNSMX)
		if !ok || v == nil {
			return bad("non-nil *DNSMX")
		}
	case dns.TypeSRV:
		v, ok := d.Value.(*rules.DNSSRV)
		if !ok || v == nil {
			return bad("non-nil *DNSSRV")
		}
	case dns.TypeHTTPS, dns.TypeSVCB:
		v, ok := d.Value.(*rules.DNSSVCB)
		if !ok || v == nil {
			return bad("non-nil *DNSSVCB")
		}
	case dns.TypePTR:
		v, ok := d.Value.(string)
		if !ok || !strings.HasSuffix(v, ".") || v == "." {
			return bad("fully-qualified name string")
		}
	case dns.TypeTXT:
		if _, ok := d.Value.(string); !ok {
			return bad("string")
		}
	default:
		if d.Value != nil {
			return bad("nil")
		}
	}

	return ""
}

// c10Consumer type-asserts the value by record type the way a DNS server using
// the library does; a wrong shape panics here.
func c10Consumer(d *rules.DNSRewrite) (desc string) {
	if d.NewCNAME != "" {
		return "cname:" + d.NewCNAME
	}
	switch d.RRType {
	case dns.TypeA, dns.TypeAAAA:
		return d.Value.(netip.Addr).String()
	case dns.TypeMX:
		v := d.Value.(*rules.DNSMX)

		return fmt.Sprint(v.Preference, v.Exchange)
	case dns.TypeSRV:
		v := d.Value.(*rules.DNSSRV)

		return fmt.Sprint(v.Priority, v.Weight, v.Port, v.Target)
	case dns.TypeHTTPS, dns.TypeSVCB:
		v := d.Value.(*rules.DNSSVCB)

		return fmt.Sprint(v.Priority, v.Target, len(v.Params))
	case dns.TypePTR, dns.TypeTXT:
		return d.Value.(string)
	}

	return ""
}

// Expectation classes.
const (
	c10Unknown = iota
	c10Valid
	c10Invalid
)

type c10Case struct {
	Value  string
	Expect int
	// For c10Valid: the expected content.
	CNAME string
	RCode int
	RR    uint16
	Check func(v any) bool
	Note  string
}

var (
	c10RRNames    []string
	c10RcodeNames []string
)

func init() {
	for k := range dns.StringToType {
		c10RRNames = append(c10RRNames, k)
	}
	sort.Strings(c10RRNames)
	for k := range dns.StringToRcode {
		c10RcodeNames = append(c10RcodeNames, k)
	}
	sort.Strings(c10RcodeNames)
}

func c10MixCase(c *core.Ctx, s string) string {
	switch c.Rng.Intn(4) {
	case 0:
		return strings.ToLower(s)
	case 1:
		b := []byte(s)
		for i := range b {
			if c.Rng.Intn(2) == 0 {
				b[i] = byte(strings.ToLower(string(b[i]))[0])
			}
		}

		return string(b)
	}

	return s
}

var c10Hosts = []string{"mail.example.net", "a", "x-1.example", "example.net", strings.Repeat("a", 63), "1host.example", "xn--p1ai.example"}
var c10BadHosts = []string{"", "-bad.example", "bad..example", "bad_host.example", ".lead.example", "trail.example.", strings.Repeat("a", 64), "sp ace.example", "a/b"}
var c10V4 = []string{"1.2.3.4", "0.0.0.0", "255.255.255.255", "127.0.0.1"}
var c10V6 = []string{"::1", "::", "2001:db8::1", "::ffff:1.2.3.4", "fe80::1"}
var c10BadIP = []string{"1.2.3", "1.2.3.4.5", "256.1.1.1", "[::1]", "fe80::1%eth0", "1.2.3.4/24", "::g", "01.2.3.4", ""}
var c10Nums = []string{"0", "1", "10", "65535"}
var c10BadNums = []string{"-1", "65536", "+1", "1.0", "", "x", "0x10", "99999999999999999999"}

// c10Gen builds one value with its expectation.
func c10Gen(c *core.Ctx) c10Case {
	pick := func(l []string) string { return l[c.Rng.Intn(len(l))] }
	isAddr := func(want4 bool, s string) func(any) bool {
		return func(v any) bool {
			a, ok := v.(netip.Addr)
			p, err := netip.ParseAddr(s)

			return ok && err == nil && a == p && a.Is4() == want4
		}
	}
	switch c.Rng.Intn(17) {
	case 0: // keyword
		kw := pick(c10RcodeNames)
		switch kw {
		case "NOERROR", "SERVFAIL", "NXDOMAIN", "REFUSED":
			return c10Case{Value: kw, Expect: c10Valid, RCode: dns.StringToRcode[kw], Note: "keyword"}
		}
		if kw == strings.ToUpper(kw) && !strings.ContainsAny(kw, "0123456789_-") {
			return c10Case{Value: kw, Expect: c10Invalid, Note: "unknown upper-case keyword"}
		}

		return c10Case{Value: kw, Note: "keyword-like"}
	case 1: // short IP
		if c.Rng.Intn(2) == 0 {
			ip := pick(c10V4)

			return c10Case{Value: ip, Expect: c10Valid, RR: dns.TypeA, Check: isAddr(true, ip), Note: "short A"}
		}
		ip := pick(c10V6)

		return c10Case{Value: ip, Expect: c10Valid, RR: dns.TypeAAAA, Check: isAddr(false, ip), Note: "short AAAA"}
	case 2: // short host
		h := pick(c10Hosts)
		if h == strings.ToUpper(h) {
			return c10Case{Value: h}
		}

		return c10Case{Value: h, Expect: c10Valid, CNAME: h, Note: "short CNAME"}
	case 3:
		return c10Case{Value: pick(c10BadHosts[1:]), Expect: c10Invalid, Note: "short bad host"}
	case 4: // non-success rcode, anything after it
		rc := pick(c10RcodeNames)
		if rc == "NOERROR" {
			rc = "REFUSED"
		}
		rest := pick([]string{";;", ";A;1.2.3.4", ";MX;garbage", ";nosuchtype;x", ";;x"})

		return c10Case{Value: c10MixCase(c, rc) + rest, Expect: c10Valid, RCode: dns.StringToRcode[rc], Note: "failing rcode"}
	case 5:
		return c10Case{Value: "NOSUCHRCODE;A;1.2.3.4", Expect: c10Invalid, Note: "unknown rcode"}
	case 6: // A / AAAA full form
		rr := pick([]string{"A", "AAAA"})
		var ip string
		good := c.Rng.Intn(2) == 0
		switch {
		case good && rr == "A":
			ip = pick(c10V4)
		case good:
			ip = pick(c10V6)
		case rr == "A" && c.Rng.Intn(2) == 0:
			ip = pick(c10V6)
		case c.Rng.Intn(2) == 0 && rr == "AAAA":
			ip = pick(c10V4)
		default:
			ip = pick(c10BadIP)
		}
		cs := c10Case{Value: "NOERROR;" + c10MixCase(c, rr) + ";" + ip, Note: "full " + rr}
		if good {
			cs.Expect, cs.RR, cs.Check = c10Valid, dns.StringToType[rr], isAddr(rr == "A", ip)
		} else {
			cs.Expect = c10Invalid
		}

		return cs
	case 7: // MX
		p, h := pick(c10Nums), pick(c10Hosts)
		good := true
		switch c.Rng.Intn(4) {
		case 0:
			p, good = pick(c10BadNums), false
		case 1:
			h, good = pick(c10BadHosts), false
		}
		cs := c10Case{Value: "NOERROR;MX;" + p + " " + h, Note: "MX"}
		if good {
			cs.Expect, cs.RR = c10Valid, dns.TypeMX
			cs.Check = func(v any) bool {
				m, ok := v.(*rules.DNSMX)

				return ok && m != nil && m.Exchange == h && fmt.Sprint(m.Preference) == p
			}
		} else if !strings.Contains(h, " ") {
			cs.Expect = c10Invalid
		}

		return cs
	case 8: // SRV
		f := []string{pick(c10Nums), pick(c10Nums), pick(c10Nums), pick(append([]string{"."}, c10Hosts...))}
		good := true
		switch c.Rng.Intn(5) {
		case 0:
			f[c.Rng.Intn(3)], good = pick(c10BadNums), false
		case 1:
			f[3], good = pick(c10BadHosts[1:]), false
		case 2:
			f, good = f[:3], false
		}
		cs := c10Case{Value: "NOERROR;SRV;" + strings.Join(f, " "), Note: "SRV"}
		if good {
			cs.Expect, cs.RR = c10Valid, dns.TypeSRV
			cs.Check = func(v any) bool {
				s, ok := v.(*rules.DNSSRV)

				return ok && s != nil && s.Target == f[3] && fmt.Sprint(s.Priority, s.Weight, s.Port) == f[0]+" "+f[1]+" "+f[2]
			}
		} else if !strings.Contains(f[len(f)-1], " ") && len(f) == 4 && !strings.Contains(strings.Join(f[:3], ""), " ") {
			cs.Expect = c10Invalid
		} else if len(f) == 3 {
			cs.Expect = c10Invalid
		}

		return cs
	case 9: // HTTPS / SVCB
		rr := pick([]string{"HTTPS", "SVCB"})
		prio, target := pick(c10Nums), pick(append([]string{"."}, c10Hosts...))
		params := pick([]string{"", " alpn=h3", " alpn=h3 port=443", " ipv4hint=1.2.3.4",
			// The generic spelling of parameter keys, next to registered names
			// and to itself, and a key written twice.
			" key1=h3", " alpn=h2 key1=h3", " port=443 key3=8443", " key65535=x", " key01=a key1=b", " alpn=h2 alpn=h3", " mandatory=alpn alpn=h2 key7=/q", " dohpath=/a key7=/b key07=/c"})
		good := true
		switch c.Rng.Intn(5) {
		case 0:
			prio, good = pick(c10BadNums), false
		case 1:
			target, good = pick(c10BadHosts[1:]), false
		case 2:
			params, good = pick([]string{" alpn", " a=b=c"}), false
		}
		cs := c10Case{Value: "NOERROR;" + c10MixCase(c, rr) + ";" + prio + " " + target + params, Note: rr}
		if good {
			cs.Expect, cs.RR = c10Valid, dns.StringToType[rr]
			cs.Check = func(v any) bool {
				s, ok := v.(*rules.DNSSVCB)

				keys := map[string]bool{}
				for _, kv := range strings.Fields(params) {
					keys[strings.SplitN(kv, "=", 2)[0]] = true
				}

				return ok && s != nil && s.Target == target && fmt.Sprint(s.Priority) == prio && len(s.Params) == len(keys)
			}
		} else if !strings.Contains(target, " ") && prio != "" {
			cs.Expect = c10Invalid
		}

		return cs
	case 10: // PTR
		h := pick(c10Hosts)
		dot := c.Rng.Intn(2) == 0
		v := h
		if dot {
			v += "."
		}

		return c10Case{Value: "NOERROR;PTR;" + v, Expect: c10Valid, RR: dns.TypePTR, Note: "PTR",
			Check: func(x any) bool { s, ok := x.(string); return ok && s == h+"." }}
	case 11:
		return c10Case{Value: "NOERROR;PTR;" + pick([]string{"", ".", "bad..host", "-x.example", "bad_host."}), Expect: c10Invalid, Note: "bad PTR"}
	case 12: // TXT
		t := pick([]string{"hello", "hello world", "", "a;b;c", "v=spf1 -all", "x=1", strings.Repeat("a", 255), strings.Repeat("b", 256), strings.Repeat("c", 257), strings.Repeat("long text ", 120), strings.Repeat("d", 4000),
			// Text as copied from a zone file: backslash escapes (complete and cut
			// short at the end of the value) and quotes are ordinary characters.
			`a\12`, `\00`, `v=spf1 -all\03`, `a\`, `\\`, `a\1`, `a\123`, `\1234`, `a\b`, `tab\there`, `"quoted"`, `'single'`, `\"q\"`, `a\12b`, `\255`, `\256`, `\999`, `x\0`})
		cs := c10Case{Value: "NOERROR;TXT;" + t, RR: dns.TypeTXT, Note: "TXT"}
		if t != "" {
			cs.Expect = c10Valid
			cs.Check = func(x any) bool { s, ok := x.(string); return ok && s == t }
			if strings.HasSuffix(t, `\`) {
				// (a backslash at the very end has nothing to escape; what
				// becomes of it is not determined by the grammar)
				cs.Check = nil
			}
		}

		return cs
	case 13: // CNAME full form
		if c.Rng.Intn(3) == 0 {
			return c10Case{Value: "NOERROR;CNAME;" + pick(c10BadHosts), Expect: c10Invalid, Note: "bad full CNAME"}
		}
		h := pick(c10Hosts)

		return c10Case{Value: "NOERROR;" + c10MixCase(c, "CNAME") + ";" + h, Expect: c10Valid, CNAME: h, Note: "full CNAME"}
	case 14: // any record type name, with or without handler
		rr := pick(c10RRNames)
		val := pick([]string{"x", "1.2.3.4", "10 mail.example.net", "", "a b c d"})
		cs := c10Case{Value: "NOERROR;" + c10MixCase(c, rr) + ";" + val, Note: "any RR type"}
		switch rr {
		case "None", "Reserved", "NONE", "RESERVED":
			cs.Expect = c10Invalid
		case "A", "AAAA", "CNAME", "MX", "PTR", "TXT", "HTTPS", "SVCB", "SRV":
		default:
			if strings.EqualFold(rr, "none") || strings.EqualFold(rr, "reserved") {
				cs.Expect = c10Invalid
			} else {
				cs.Expect, cs.RR = c10Valid, dns.StringToType[rr]
				cs.Check = func(x any) bool { return x == nil }
			}
		}

		return cs
	case 15:
		// Names spelled with characters that only Unicode case mapping turns
		// into ASCII letters (U+017F long s, U+212A Kelvin sign).
		rr := pick([]string{"SRV", "HTTPS", "SVCB", "MX", "TXT", "NS", "KEY", "DNSKEY", "KX", "CNAME", "AAAA", "A"})
		sp := strings.NewReplacer("S", "\u017f", "s", "\u017f", "K", "\u212a").Replace(strings.ToLower(rr))
		if c.Rng.Intn(2) == 0 {
			sp = strings.NewReplacer("S", "\u017f", "K", "\u212a").Replace(rr)
		}
		val := pick([]string{"1 2 80 srv.example.net", "1 . alpn=h3", "10 mail.example.net", "x", "", "1.2.3.4"})
		rc := pick([]string{"NOERROR", "noerror", "NOERROR", "REFU\u017fED"})

		return c10Case{Value: rc + ";" + sp + ";" + val, Note: "unicode look-alike in a name"}
	default: // delimiter counts
		n := c.Rng.Intn(5)
		parts := []string{"NOERROR", "A", "1.2.3.4", "x", "y"}
		v := strings.Join(parts[:n+1], ";")
		cs := c10Case{Value: v, Note: "delimiters"}
		if n == 1 {
			cs.Expect = c10Invalid
		}
		if n == 0 {
			cs.Expect, cs.RCode = c10Valid, 0
		}

		return cs
	}
}

func c10Mutate(c *core.Ctx, v string) string {
	b := []byte(v)
	for i, n := 0, 1+c.Rng.Intn(3); i < n; i++ {
		alphabet := ";. :-_/\\%=0123456789aAzZ,|~\x00\xff\t"
		ch := alphabet[c.Rng.Intn(len(alphabet))]
		switch op := c.Rng.Intn(4); {
		case op == 0 || len(b) == 0:
			p := c.Rng.Intn(len(b) + 1)
			b = append(b[:p], append([]byte{ch}, b[p:]...)...)
		case op == 1:
			p := c.Rng.Intn(len(b))
			b = append(b[:p], b[p+1:]...)
		case op == 2:
			b[c.Rng.Intn(len(b))] = ch
		default:
			p := c.Rng.Intn(len(b))
			q := p + c.Rng.Intn(len(b)-p)
			b = append(b[:q], append(append([]byte{}, b[p:q]...), b[q:]...)...)
		}
	}

	return string(b)
}

type c10Witness struct {
	Rule   string `json:"rule"`
	Value  string `json:"value"`
	Note   string `json:"note,omitempty"`
	Parsed string `json:"parsed,omitempty"`
}

func c10Check(c *core.Ctx, cs c10Case) {
	prefix := []string{"||h.example^$dnsrewrite=", "@@||h.example^$dnsrewrite=", "||h.example^$important,dnsrewrite="}[c.Rng.Intn(3)]
	text := prefix + cs.Value
	if !strings.ContainsAny(cs.Value, ",$\\") && c.Rng.Intn(3) == 0 {
		// $dnsrewrite need not be the last modifier of its rule.
		text += []string{",dnstype=A", ",client=127.0.0.1", ",important", ",dnstype=~AAAA,important"}[c.Rng.Intn(4)]
		c.Event("values_followed_by_another_modifier", 1)
	}
	w := c10Witness{Rule: text, Value: cs.Value, Note: cs.Note}
	var r1, r2 *rules.NetworkRule
	var e1, e2 error
	if c.Guard("NewNetworkRule", nil, w, func() {
		r1, e1 = rules.NewNetworkRule(text, 1)
		r2, e2 = rules.NewNetworkRule(text, 1)
	}) {
		return
	}
	c.Eval(1)
	if (e1 == nil) != (e2 == nil) || (e1 == nil && !reflect.DeepEqual(r1.DNSRewrite, r2.DNSRewrite)) {
		c.Violation("nondeterministic-parse", nil, w, "parsing %q twice gives different results", text)

		return
	}
	if e1 == nil && strings.Count(cs.Value, "=") >= 2 {
		// Values with several key=value parameters go through a map: more
		// parses, since an order-dependent outcome shows only now and then.
		for i := 0; i < 24; i++ {
			r3, e3 := rules.NewNetworkRule(text, 1)
			if e3 != nil || !reflect.DeepEqual(r1.DNSRewrite, r3.DNSRewrite) {
				c.Violation("nondeterministic-parse", nil, w, "parsing %q again (%d) gives a different result", text, i+3)

				return
			}
		}
		c.Event("values_with_several_parameters_parsed_26_times", 1)
	}
	if e1 != nil {
		c.Event("rejected", 1)
		if cs.Expect == c10Valid && !strings.ContainsAny(cs.Value, ",$") {
			c.Violation("valid-value-rejected", nil, w, "well-formed value %q (%s) rejected: %v", cs.Value, cs.Note, e1)
		}

		return
	}
	c.Event("accepted", 1)
	d := r1.DNSRewrite
	if d == nil && strings.ContainsAny(cs.Value, "$,") {
		// A '$' or ',' in the value moved the options delimiter or split the
		// value: the text is a rule without a $dnsrewrite modifier.
		c.Inconclusive("value-changes-the-option-syntax")

		return
	}
	if d == nil {
		c.Violation("rule-accepted-without-its-rewrite", nil, w, "rule %q accepted, but it carries no rewrite (value %q, %s)", text, cs.Value, cs.Note)

		return
	}
	w.Parsed = fmt.Sprintf("%+v", d)
	c.NonTrivial(core.Hash64(cs.Value))
	if d != nil && d.RRType != 0 {
		c.Event("accepted_rr_"+dns.TypeToString[d.RRType], 1)
	}
	if msg := c10Shape(d); msg != "" {
		c.Violation("shape-violated", nil, w, "value %q accepted with a wrong shape: %s", cs.Value, msg)

		return
	}
	c.Guard("consumer-type-assertion", nil, w, func() { _ = c10Consumer(d) })
	if strings.ContainsAny(cs.Value, ",$") {
		return
	}
	switch cs.Expect {
	case c10Invalid:
		c.Violation("malformed-value-accepted", nil, w, "malformed value %q (%s) accepted as %+v", cs.Value, cs.Note, *d)
	case c10Valid:
		ok := d.NewCNAME == cs.CNAME && d.RCode == cs.RCode && d.RRType == cs.RR
		if ok && cs.Check != nil {
			ok = cs.Check(d.Value)
		}
		if ok && cs.Check == nil && cs.RR == 0 && d.Value != nil {
			ok = false
		}
		if !ok {
			c.Violation("parsed-content-differs", nil, w, "value %q (%s) parsed to %+v (value %#v), expected cname=%q rcode=%d rr=%d", cs.Value, cs.Note, *d, d.Value, cs.CNAME, cs.RCode, cs.RR)
		}
	}
	if c.WantSample() && c.Rng.Intn(300) == 0 {
		c.Sample(map[string]any{"value": cs.Value, "parsed": w.Parsed})
	}
}

func init() {
	sizes := map[core.Tier]int{core.Quick: 100000, core.Thorough: 10000000}
	core.Register(&core.Prop{
		ID:    "C10",
		Level: "exploration",
		Rule: "per case 48 values: grammar-generated around every keyword, all record type names of miekg/dns and all RCODE names in mixed case, 0..4 delimiters, field counts +-1 around each handler's arity, numeric bounds (-1, 0, 65535, 65536, +1, empty), labels of 1/63/64 characters, IPv4/IPv6/mapped/zoned/bracketed addresses, each also with 1..3 byte mutations, and pairs of values joined by ',dnsrewrite=' (the modifier written twice); " +
			"SVCB parameters include generic keyN spellings and repeated keys, and values with two or more parameters are parsed 26 times; " +
			"TXT values with complete and truncated zone-file escapes and quotes; " +
			"every accepted value must satisfy the shape predicate of the RRValue contract, survive a consumer that type-asserts by record type, parse deterministically, and agree with the generator's expectation where the grammar determines it (valid => expected content, malformed => error); non-trivial = accepted value; distinct by value",
		Assumptions: []string{
			"expectations are only asserted for values whose validity the documented grammar decides; mutated values are judged by the shape predicate alone",
		},
		Cases: func(t core.Tier) int { return sizes[t] },
		Run: func(c *core.Ctx, idx int) {
			for k := 0; k < 24; k++ {
				cs := c10Gen(c)
				c10Check(c, cs)
				m := c10Case{Value: c10Mutate(c, cs.Value), Note: "mutation of " + cs.Note}
				c10Check(c, m)
				if k%6 == 0 {
					// The modifier written twice in one rule (the value then
					// contains ",dnsrewrite="): whichever occurrence counts, the
					// result is one well-shaped rewrite, never a blend of both.
					o := c10Gen(c)
					c10Check(c, c10Case{Value: cs.Value + ",dnsrewrite=" + o.Value, Note: "modifier twice: " + cs.Note + " + " + o.Note})
					c.Event("values_with_the_modifier_twice", 1)
				}
			}
		},
	})
}
