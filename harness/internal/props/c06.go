package props

import (
	"fmt"
	"strings"
	"sync"

	"github.com/AdguardTeam/urlfilter"
	"github.com/AdguardTeam/urlfilter/rules"

	"verifharness/internal/core"
	"verifharness/internal/gen"
	"verifharness/internal/util"
)

// C06: the verdict follows the documented precedence, whatever the rule order.

// c06Item is one rule of a multiset: a spec, the side it applies to and its
// rendered text.
type c06Item struct {
	Spec   *gen.Spec
	Source bool // matches the referrer, not the request
	Text   string
}

func c06HasOpt(s *gen.Spec, o string) bool {
	for _, d := range s.DocOpts {
		if d == o || (d == "document" && (o == "urlblock" || o == "elemhide")) {
			return true
		}
	}

	return false
}

// c06SameRule tells whether b (a badfilter rule) is the twin of x.
func c06Twin(b, x *gen.Spec) bool {
	if !b.Badfilter || x.Badfilter {
		return false
	}
	bc := b.Clone()
	bc.Badfilter = false

	return bc.CanonKey() == x.CanonKey()
}

// c06Effective removes badfilter rules, their twins and rewrite rules.
func c06Effective(items []c06Item) (out []c06Item) {
	for _, x := range items {
		if x.Spec.Badfilter || x.Spec.DNSRewrite != nil {
			continue
		}
		disabled := false
		for _, b := range items {
			if b.Source == x.Source && c06Twin(b.Spec, x.Spec) {
				disabled = true
			}
		}
		if !disabled {
			out = append(out, x)
		}
	}

	return out
}

func c06Rank(s *gen.Spec) int {
	r := 0
	if s.Exception {
		r = 1
	}
	if s.Important {
		r += 2
	}

	return r
}

// c06Reference returns the verdict class for the items: "block", "allow" or
// "none".  web=false is the DNS flavour (no referrer-level rules).
func c06Reference(items []c06Item, web bool) string {
	eff := c06Effective(items)
	suppressAll, suppressGeneric, docException := false, false, false
	if web {
		for _, x := range eff {
			if !x.Source || !x.Spec.Exception {
				continue
			}
			if c06HasOpt(x.Spec, "urlblock") {
				suppressAll = true
				docException = true
			}
			if c06HasOpt(x.Spec, "genericblock") {
				suppressGeneric = true
				docException = true
			}
		}
	}
	best := -1
	for _, x := range eff {
		if x.Source || x.Spec.Stealth {
			continue
		}
		if !x.Spec.Exception {
			if suppressAll {
				continue
			}
			if suppressGeneric && !c07Specific(x.Spec) {
				continue
			}
		}
		if r := c06Rank(x.Spec); r > best {
			best = r
		}
	}
	switch {
	case best == -1 && docException:
		return "allow"
	case best == -1:
		return "none"
	case best == 1 || best == 3:
		return "allow"
	default:
		return "block"
	}
}

// c06RandomItems draws a multiset of 1..5 rules.
func c06RandomItems(c *core.Ctx, web bool) []c06Item {
	n := 1 + c.Rng.Intn(4)
	if c.Rng.Intn(40) == 0 {
		// Many matching rules at once (beyond small-slice special cases of any
		// sorting, partitioning or de-duplication step).
		n = 13 + c.Rng.Intn(40)
	}
	var items []c06Item
	add := func(s *gen.Spec, source bool) {
		items = append(items, c06Item{Spec: s, Source: source, Text: s.Render(c.Rng)})
	}
	for len(items) < n {
		s := &gen.Spec{}
		source := web && c.Rng.Intn(3) == 0
		if source {
			// (patterns with and without a five-character shortcut: the rules
			// are spread over the lookup tables of the engine)
			s.Pattern = []string{"||site.com^", "||site.com^", "site."}[c.Rng.Intn(3)]
			s.Exception = c.Rng.Intn(5) > 0
			if s.Exception {
				switch c.Rng.Intn(9) {
				case 7:
					s.DocOpts = [][]string{{"urlblock", "genericblock"}, {"genericblock", "urlblock"}, {"document", "genericblock"}, {"genericblock", "elemhide"}, {"urlblock", "elemhide", "jsinject"}, {"urlblock", "document"}, {"elemhide", "document"}, {"jsinject", "content", "document"}}[c.Rng.Intn(8)]
				case 0, 1:
					s.DocOpts = []string{"urlblock"}
				case 2, 3:
					s.DocOpts = []string{"genericblock"}
				case 4:
					s.DocOpts = []string{"document"}
				case 5:
					s.DocOpts = []string{"elemhide"}
				}
				if len(s.DocOpts) == 0 && c.Rng.Intn(3) == 0 {
					// A special-purpose rule: $stealth alone.
					s.Stealth = true
				}
			}
			s.Important = c.Rng.Intn(4) == 0
		} else {
			s.Pattern = []string{"||ads.com^", "||ads.com^", "||ads.com^", "ads.", "://a", "|http://ads.com"}[c.Rng.Intn(6)]
			if !web && s.Pattern == "|http://ads.com" {
				// (a pattern anchored at the scheme is not applied to host names)
				s.Pattern = "||ads.com^"
			}
			s.Exception = c.Rng.Intn(3) == 0
			s.Important = c.Rng.Intn(3) == 0
			if web {
				switch c.Rng.Intn(4) {
				case 0:
					s.Domains = []gen.Val{{Name: "site.com"}}
				case 1:
					s.Domains = []gen.Val{{Name: "other.org", Neg: true}}
				}
				if s.Exception {
					switch c.Rng.Intn(8) {
					case 0:
						s.DocOpts = []string{"urlblock"}
					case 1:
						s.DocOpts = []string{"genericblock"}
					case 2:
						s.DocOpts = []string{"elemhide"}
					case 3:
						s.DocOpts = []string{"document"}
					case 4:
						s.Stealth = true
					}
				}
			} else {
				switch c.Rng.Intn(5) {
				case 0:
					s.CTags = []gen.Val{{Name: "device_pc"}}
				case 1:
					s.Clients = []gen.Client{gen.ClientNames[0]}
				case 2:
					s.DenyAllow = []string{"other.org"}
				}
			}
			if c.Rng.Intn(8) == 0 && len(s.DocOpts) == 0 && !s.Stealth {
				v := "1.2.3.4"
				s.DNSRewrite = &v
			}
		}
		add(s, source)
		if c.Rng.Intn(4) == 0 {
			t := s.Clone()
			t.Badfilter = true
			add(t, source)
		}
	}
	if c.Rng.Intn(12) == 0 {
		// Two different rules whose whole texts have the same 32-bit hash
		// (what a large enough set of lists contains by chance): a blocking
		// rule and an exception, or a plain and an important rule.
		type pre struct {
			a, b       string
			ea, ia, eb bool
			ib         bool
		}
		pres := []pre{
			{a: "||ads.com^$domain=site.com|", b: "@@||ads.com^$domain=site.com|", eb: true},
			{a: "||ads.com^$important,domain=site.com|", b: "@@||ads.com^$domain=site.com|", ia: true, eb: true},
			{a: "||ads.com^$domain=site.com|", b: "||ads.com^$important,domain=site.com|", ib: true},
		}
		if !web {
			pres = []pre{
				{a: "||ads.com^$denyallow=other.org|", b: "@@||ads.com^$denyallow=other.org|", eb: true},
				{a: "@@||ads.com^$denyallow=other.org|", b: "||ads.com^$important,denyallow=other.org|", ea: true, ib: true},
			}
		}
		pr := pres[c.Rng.Intn(len(pres))]
		if pairs := gen.CrossCollisions(pr.a, pr.b, 300000); len(pairs) > 0 {
			p := pairs[c.Rng.Intn(len(pairs))]
			// (the same ending on both keeps the hashes equal)
			p[0], p[1] = p[0]+".com", p[1]+".com"
			mk := func(text, prefix string, exc, imp bool) c06Item {
				sp := &gen.Spec{Pattern: "||ads.com^", Exception: exc, Important: imp}
				tail := text[len(prefix):]
				if web {
					sp.Domains = []gen.Val{{Name: "site.com"}, {Name: tail}}
				} else {
					sp.DenyAllow = []string{"other.org", tail}
				}

				return c06Item{Spec: sp, Text: text}
			}
			items = append(items, mk(p[0], pr.a, pr.ea, pr.ia), mk(p[1], pr.b, pr.eb, pr.ib))
			items = util.Shuffle(c.Rng, items)
			c.Event("multisets_with_hash_colliding_rule_texts", 1)
		}
	}

	return items
}

type c06Witness struct {
	Via       string   `json:"via"`
	Rules     []string `json:"rules"`
	Source    []string `json:"source_rules,omitempty"`
	Got       string   `json:"got"`
	GotRule   string   `json:"got_rule,omitempty"`
	Reference string   `json:"reference"`
}

func c06ParseAll(items []c06Item) (rs, src []*rules.NetworkRule, rt, st []string) {
	for _, it := range items {
		r, err := rules.NewNetworkRule(it.Text, 1)
		if err != nil {
			panic(fmt.Sprintf("rule %q rejected: %v", it.Text, err))
		}
		if it.Source {
			src = append(src, r)
			st = append(st, it.Text)
		} else {
			rs = append(rs, r)
			rt = append(rt, it.Text)
		}
	}

	return rs, src, rt, st
}

// c06CheckSelected verifies the invariants on the selected rule.
func c06CheckSelected(c *core.Ctx, via string, sel *rules.NetworkRule, items []c06Item, w c06Witness) {
	if sel == nil {
		return
	}
	eff := c06Effective(items)
	bad := ""
	switch {
	case sel.DNSRewrite != nil:
		bad = "a $dnsrewrite rule"
	case sel.IsOptionEnabled(rules.OptionBadfilter):
		bad = "a $badfilter rule"
	case sel.IsOptionEnabled(rules.OptionStealth):
		bad = "a $stealth rule"
	default:
		found := false
		for _, e := range eff {
			if e.Text == sel.RuleText {
				found = true
			}
		}
		if !found {
			bad = "a rule that is disabled by $badfilter"
		}
	}
	if bad != "" {
		c.Violation("special-rule-selected:"+via, nil, w, "%s selected %s as the basic result: %q from %v / %v", via, bad, sel.RuleText, w.Rules, w.Source)
	}
}

// c06Catalog is the catalogue of rule shapes for the exhaustive part: every
// set of up to 3 (thorough: 4) shapes is executed in all its permutations.
var c06Catalog = func() (out []c06Item) {
	add := func(source bool, s *gen.Spec) {
		if source {
			s.Pattern = "||site.com^"
		} else {
			s.Pattern = "||ads.com^"
		}
		out = append(out, c06Item{Spec: s, Source: source, Text: s.Render(nil)})
	}
	rw := "1.2.3.4"
	for _, exc := range []bool{false, true} {
		for _, imp := range []bool{false, true} {
			add(false, &gen.Spec{Exception: exc, Important: imp})
			add(false, &gen.Spec{Exception: exc, Important: imp, Domains: []gen.Val{{Name: "site.com"}}})
			add(false, &gen.Spec{Exception: exc, Important: imp, Domains: []gen.Val{{Name: "other.org", Neg: true}}})
		}
	}
	for _, o := range []string{"urlblock", "genericblock", "elemhide", "document"} {
		for _, imp := range []bool{false, true} {
			add(false, &gen.Spec{Exception: true, Important: imp, DocOpts: []string{o}})
			add(true, &gen.Spec{Exception: true, Important: imp, DocOpts: []string{o}})
		}
	}
	add(false, &gen.Spec{DNSRewrite: &rw})
	add(false, &gen.Spec{Exception: true, DNSRewrite: &rw})
	add(false, &gen.Spec{Exception: true, Stealth: true})
	add(false, &gen.Spec{Badfilter: true})
	add(false, &gen.Spec{Badfilter: true, Exception: true})
	add(false, &gen.Spec{Badfilter: true, Important: true})
	for _, os := range [][]string{{"urlblock", "genericblock"}, {"document", "genericblock"}, {"genericblock", "elemhide"}, {"urlblock", "document"}} {
		add(true, &gen.Spec{Exception: true, DocOpts: os})
		add(false, &gen.Spec{Exception: true, DocOpts: os})
	}
	add(true, &gen.Spec{Exception: true})
	add(true, &gen.Spec{})
	add(true, &gen.Spec{Exception: true, Stealth: true})
	add(true, &gen.Spec{Exception: true, Badfilter: true, DocOpts: []string{"urlblock"}})
	add(true, &gen.Spec{Exception: true, Badfilter: true, DocOpts: []string{"genericblock"}})

	return out
}()

// c06Subsets lists all subsets of the catalogue with 1..k members.
func c06Subsets(k int) (out [][]int) {
	n := len(c06Catalog)
	var rec func(start int, cur []int)
	rec = func(start int, cur []int) {
		if len(cur) > 0 {
			out = append(out, append([]int(nil), cur...))
		}
		if len(cur) == k {
			return
		}
		for i := start; i < n; i++ {
			rec(i+1, append(cur, i))
		}
	}
	rec(0, nil)

	return out
}

var (
	c06SubsetCache = map[int][][]int{}
	c06SubsetMu    sync.Mutex
)

func c06SubsetsFor(t core.Tier) [][]int {
	k := 3
	if t == core.Thorough {
		k = 4
	}
	c06SubsetMu.Lock()
	defer c06SubsetMu.Unlock()
	if _, ok := c06SubsetCache[k]; !ok {
		c06SubsetCache[k] = c06Subsets(k)
	}

	return c06SubsetCache[k]
}

const c06SubsetBatch = 16

func c06ExhaustiveCases(t core.Tier) int {
	return (len(c06SubsetsFor(t)) + c06SubsetBatch - 1) / c06SubsetBatch
}

func c06Run(c *core.Ctx, idx int) {
	if ne := c06ExhaustiveCases(c.Env.Tier); idx < ne {
		subs := c06SubsetsFor(c.Env.Tier)
		for k := idx * c06SubsetBatch; k < (idx+1)*c06SubsetBatch && k < len(subs); k++ {
			var items []c06Item
			for _, i := range subs[k] {
				items = append(items, c06Catalog[i])
			}
			c06RunItems(c, items, true)
			c.Event("catalogue_subsets", 1)
		}

		return
	}
	web := idx%3 != 0
	if web && c.Rng.Intn(8) == 0 {
		c06SelfReferred(c)

		return
	}
	items := c06RandomItems(c, web)
	c06RunItems(c, items, web)
}

// c06SelfReferred asks the engine about a page whose referrer is the page
// itself (a reload, a form posting to its own address): the rules matching the
// request are those that match it with that source, the rules matching the
// referrer those that match it as a page without a source - one rule may be
// on both sides, on one, or on neither, depending on its $domain.
func c06SelfReferred(c *core.Ctx) {
	var specs []*gen.Spec
	for i, n := 0, 2+c.Rng.Intn(4); i < n; i++ {
		sp := &gen.Spec{Pattern: "||ads.com^", Exception: c.Rng.Intn(2) == 0, Important: c.Rng.Intn(3) == 0}
		switch c.Rng.Intn(5) {
		case 0:
			sp.Domains = []gen.Val{{Name: "ads.com"}}
		case 1:
			sp.Domains = []gen.Val{{Name: "ads.com", Neg: true}}
		case 2:
			sp.Domains = []gen.Val{{Name: "other.org"}}
		}
		if sp.Exception && c.Rng.Intn(3) > 0 {
			sp.DocOpts = [][]string{{"urlblock"}, {"genericblock"}, {"document"}, {"elemhide"}, {"urlblock", "genericblock"}}[c.Rng.Intn(5)]
		}
		specs = append(specs, sp)
		if c.Rng.Intn(6) == 0 {
			t := sp.Clone()
			t.Badfilter = true
			specs = append(specs, t)
		}
	}
	u := []string{"http://ads.com/page", "https://ads.com/", "http://ads.com/page?x=1"}[c.Rng.Intn(3)]
	var items []c06Item
	var lines []string
	for _, sp := range specs {
		text := sp.Render(c.Rng)
		lines = append(lines, text)
		r, err := rules.NewNetworkRule(text, 1)
		if err != nil {
			panic(fmt.Sprintf("rule %q rejected: %v", text, err))
		}
		if r.Match(rules.NewRequest(u, u, rules.TypeDocument)) {
			items = append(items, c06Item{Spec: sp, Text: text})
		}
		if r.Match(rules.NewRequest(u, "", rules.TypeDocument)) {
			items = append(items, c06Item{Spec: sp, Text: text, Source: true})
		}
	}
	want := c06Reference(items, true)
	c.NonTrivial(core.Hash64(append([]string{"self", u}, util.Sorted(lines)...)...))
	c.Event("self_referred_pages", 1)
	for k := 0; k < 2; k++ {
		eng := urlfilter.NewEngine(util.StorageSplit(c.Rng, util.Shuffle(c.Rng, lines)))
		sel := eng.MatchRequest(rules.NewRequest(u, u, rules.TypeDocument)).GetBasicResult()
		c.Eval(1)
		if got := util.Class(sel); got != want {
			w := c06Witness{Via: "Engine.MatchRequest(page referred by itself)", Rules: lines, Got: got, Reference: want}
			if sel != nil {
				w.GotRule = sel.RuleText
			}
			c.Violation("class-mismatch:self-referred", nil, w, "Engine.MatchRequest(%s referred by itself) over %v: verdict %s (%s), reference %s", u, lines, got, w.GotRule, want)
		}
	}
}

func c06RunItems(c *core.Ctx, items []c06Item, web bool) {
	want := c06Reference(items, web)

	var texts []string
	for _, it := range items {
		side := "req:"
		if it.Source {
			side = "src:"
		}
		texts = append(texts, side+it.Text)
	}
	c.NonTrivial(core.Hash64(util.Sorted(texts)...))
	c.Event("reference_"+want, 1)

	nperm := 0
	each := func(f func(p []int)) { permute(len(items), f) }
	if len(items) > 6 {
		// Too many for all permutations: 24 PRNG-drawn ones.
		each = func(f func(p []int)) {
			for i := 0; i < 24; i++ {
				f(c.Rng.Perm(len(items)))
			}
		}
		c.Event("large_multisets", 1)
	}
	each(func(p []int) {
		nperm++
		perm := make([]c06Item, len(items))
		for i, pi := range p {
			perm[i] = items[pi]
		}
		rs, src, rt, st := c06ParseAll(perm)
		judge := func(via string, sel *rules.NetworkRule) {
			c.Eval(1)
			w := c06Witness{Via: via, Rules: rt, Source: st, Got: util.Class(sel), Reference: want}
			if sel != nil {
				w.GotRule = sel.RuleText
			}
			if w.Got != want {
				c.Violation("class-mismatch:"+via, nil, w, "%s over rules %v source rules %v: verdict %s (%s), reference %s", via, rt, st, w.Got, w.GotRule, want)
			}
			c06CheckSelected(c, via, sel, perm, w)
		}
		if web {
			judge("NewMatchingResult", rules.NewMatchingResult(rs, src).GetBasicResult())
		} else {
			judge("GetDNSBasicRule", rules.GetDNSBasicRule(rs))
		}
		// The candidate slices belong to the caller, who may evaluate them
		// again: the verdict is the same (an implementation may reorder them,
		// but must not leave other rules behind than it was given).
		if !util.EqualStrings(util.Texts(rs), rt) || !util.EqualStrings(util.Texts(src), st) {
			c.Event("callers_slice_reordered_or_changed", 1)
		}
		if web {
			judge("NewMatchingResult(same slices again)", rules.NewMatchingResult(rs, src).GetBasicResult())
		} else {
			judge("GetDNSBasicRule(same slice again)", rules.GetDNSBasicRule(rs))
		}

		// Engines, on a sample of the permutations, with a random split into lists.
		if nperm%5 != 1 {
			return
		}
		nl := 1 + c.Rng.Intn(3)
		lists := make([][]string, nl)
		for _, it := range perm {
			k := c.Rng.Intn(nl)
			lists[k] = append(lists[k], it.Text)
		}
		var lt []string
		for _, l := range lists {
			lt = append(lt, util.Lines(l))
		}
		suffixMode := web && c.Rng.Intn(5) == 0
		if suffixMode {
			// The referring site is a tenant of a public suffix and the rules
			// name the suffix itself: "site.com" becomes "github.io", the page is
			// http://shop.github.io/.
			for i := range lt {
				lt[i] = strings.ReplaceAll(strings.ReplaceAll(lt[i], "site.com", "github.io"), "site.", "shop.")
			}
			c.Event("engine_requests_from_a_tenant_of_a_public_suffix", 1)
		}
		uniMode := web && !suffixMode && c.Rng.Intn(6) == 0
		target := "http://ads.com/page"
		if uniMode {
			// The advertised host is written in its own script (rules and
			// request alike): the indexed window of the patterns holds
			// characters of several bytes.
			for i := range lt {
				lt[i] = strings.ReplaceAll(strings.ReplaceAll(lt[i], "ads.", "\u0440\u0435\u043a."), "://a", "://\u0440")
			}
			target = "http://\u0440\u0435\u043a.com/page"
			c.Event("engine_requests_for_a_host_written_in_cyrillic", 1)
		}
		if web {
			eng := urlfilter.NewEngine(util.Storage(lt...))
			src := "http://site.com/"
			if suffixMode {
				src = "http://shop.github.io/"
			}
			hasDomain := false
			for _, it := range perm {
				hasDomain = hasDomain || len(it.Spec.Domains) > 0
			}
			if !hasDomain && !suffixMode && c.Rng.Intn(3) == 0 {
				// The referrer as a user typed it: rules match it whatever its
				// letter case ($domain values are compared as written, so this is
				// only done when no rule carries one).
				src = []string{"http://SITE.com/", "HTTP://Site.COM/Landing", "http://site.COM"}[c.Rng.Intn(3)]
				c.Event("engine_requests_with_capital_letters_in_the_referrer", 1)
			}
			req := rules.NewRequest(target, src, rules.TypeDocument)
			if uniMode {
				sel := eng.MatchRequest(req).GetBasicResult()
				c.Eval(1)
				if got := util.Class(sel); got != want {
					c.Violation("class-mismatch:Engine.MatchRequest(non-ASCII host)", nil, c06Witness{Via: "Engine.MatchRequest", Rules: lt, Got: got, Reference: want},
						"Engine.MatchRequest for %s referred by %s over lists %q: verdict %s, reference %s", target, src, lt, got, want)
				}
			} else if suffixMode {
				// (the rule texts differ from those of the items: the class is
				// judged, not the identity of the selected rule)
				sel := eng.MatchRequest(req).GetBasicResult()
				c.Eval(1)
				if got := util.Class(sel); got != want {
					c.Violation("class-mismatch:Engine.MatchRequest(referrer under a public suffix)", nil, c06Witness{Via: "Engine.MatchRequest", Rules: lt, Got: got, Reference: want},
						"Engine.MatchRequest for a page referred by http://shop.github.io/ over lists %q: verdict %s, reference %s", lt, got, want)
				}
			} else {
				judge("Engine.MatchRequest", eng.MatchRequest(req).GetBasicResult())
			}
			// Without a referrer the source rules play no role.
			var only []c06Item
			for _, it := range perm {
				if !it.Source {
					only = append(only, it)
				}
			}
			wantNoSrc := c06Reference(only, true)
			ne := urlfilter.NewNetworkEngine(util.Storage(lt...))
			// $domain=site.com rules need the source to match; give it but
			// NetworkEngine.Match never looks at referrer-level exceptions.
			sel, ok := ne.Match(req)
			c.Eval(1)
			if got := util.Class(sel); got != wantNoSrc || ok != (sel != nil) {
				c.Violation("class-mismatch:NetworkEngine.Match", nil, c06Witness{Via: "NetworkEngine.Match", Rules: rt, Got: got, Reference: wantNoSrc},
					"NetworkEngine.Match over %v: verdict %s ok=%v, reference %s", rt, got, ok, wantNoSrc)
			}
		} else {
			eng := urlfilter.NewDNSEngine(util.Storage(lt...))
			res, matched := eng.MatchRequest(&urlfilter.DNSRequest{Hostname: "ads.com", ClientName: "Mom", SortedClientTags: []string{"device_pc"}})
			judge("DNSEngine.MatchRequest", res.NetworkRule)
			judge("GetDNSBasicRule(DNSResult.NetworkRules)", rules.GetDNSBasicRule(res.NetworkRules))
			c.Eval(1)
			if matched != (res.NetworkRule != nil) {
				c.Violation("matched-flag", nil, rt, "DNSEngine.MatchRequest matched=%v but NetworkRule=%v for %v", matched, res.NetworkRule, rt)
			}
		}
	})
	c.Event("permutations", int64(nperm))
	if c.WantSample() && len(items) >= 3 && c.Rng.Intn(30) == 0 {
		c.Sample(map[string]any{"rules": texts, "reference_class": want, "permutations": nperm})
	}
	_ = strings.Join
}

func init() {
	sizes := map[core.Tier]int{core.Quick: 12000, core.Thorough: 2000000}
	core.Register(&core.Prop{
		ID:    "C06",
		Level: "exploration",
		Rule: "exhaustive part: every subset of up to 3 (thorough 4) shapes of a 45-shape catalogue (request-side: exception x important x {generic, $domain-specific, ~domain-only}, document-level exceptions, $dnsrewrite, $stealth, badfilter twins; referrer-side: document-level exceptions (also with two options on one rule) x important, plain rules, $stealth, badfilter twins) in ALL permutations; sampled part: multisets of 1..5 (one in forty: 13..60, in 24 PRNG-drawn orders) matching rules (plus badfilter twins) over {exception} x {important} x {generic, $domain-specific, ~domain-only} x {no doc modifier, urlblock, genericblock, elemhide, document} x {$dnsrewrite} x {$stealth}, request-side and referrer-side; " +
			"ALL permutations of every multiset through NewMatchingResult / GetDNSBasicRule, and every fifth permutation through Engine.MatchRequest, NetworkEngine.Match and DNSEngine.MatchRequest with a random split into 1..3 lists; " +
			"one sampled multiset in twelve also holds two different rules whose whole texts have the same 32-bit hash (block vs exception, plain vs important); " +
			"one web case in eight is a page referred by itself (NewRequest(u, u, TypeDocument)): which rules are on the request side and which on the referrer side is established with Match, the verdict by the reference; " +
			"request- and referrer-side patterns with and without a five-character shortcut (the rules are spread over the lookup tables); one engine evaluation in five renames site.com to the public suffix github.io and asks from shop.github.io; " +
			"oracle = precedence reference on specs (class in block/allow/none) plus invariants on the selected rule; non-trivial = every multiset (distinct by sorted rule texts and sides)",
		Assumptions: []string{
			"a referrer-level $urlblock exception suppresses every blocking rule including $important ones, as the statement says 'every blocking rule'",
			"twins are generated with identical value order inside each modifier",
		},
		Cases: func(t core.Tier) int { return c06ExhaustiveCases(t) + sizes[t] },
		Run:   c06Run,
	})
}
