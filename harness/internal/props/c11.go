package props

import (
	"fmt"
	"io"
	"math"
	"os"
	"path/filepath"
	"strings"

	"github.com/AdguardTeam/urlfilter"
	"github.com/AdguardTeam/urlfilter/filterlist"
	"github.com/AdguardTeam/urlfilter/rules"

	"verifharness/internal/core"
	"verifharness/internal/util"
)

// C11: every scanned rule can be retrieved by its index from any backing store.

var c11ValidLines = []string{
	"||example.org^", "||ads.example.com^$script,third-party", "@@||example.org^$document", "/banner/ads/*", "|http://tracker.io/pixel.gif|",
	"||long.example^$domain=a.com|b.com|~c.com", "/regex[0-9]+rule/", "||rewrite.example^$dnsrewrite=1.2.3.4", "||x.example^$important,badfilter",
	"0.0.0.0 hosts.example", "127.0.0.1 one.example two.example # comment", "::1 v6.example", "bare-domain.example", "1.2.3.4 tab.example\tsecond.example",
	"##.generic-banner", "example.org##.specific", "example.org,~sub.example.org##.negated", "example.org#@#.specific", "example.*##.wild",
	"||ünïcode.example^", "||пример.рф^", "example.org##.ünï", "||example.org/path?q=日本語",
	// Blanks of other kinds than space and tab around a rule.
	"\v\f\u00a0||exotic-blanks.example^\u2003\u0085", "\u3000 0.0.0.0 wide-blank.example \u00a0", "\ufeff||after-bom.example^", "||zero\u200bwidth.example^",
}

var c11InertLines = []string{
	"", " ", "\t", "! comment", "# hosts comment", "#", "! ||looks.like.rule^", "[Adblock Plus 2.0]x$$y", "||bad^$nosuchmodifier", "@@", "||wide", "$$",
	"example.org#$#.css { x }", "example.org#%#script", "###", "! ünïcode comment", "||example.org^$domain=", "a$denyallow=",
	"\v\f", "\u00a0", "\u2003\u0085 ", "\u00a0! comment after a no-break space", "\v# hosts comment after a vertical tab",
}

func c11LongLine(c *core.Ctx, n int) string {
	switch c.Rng.Intn(3) {
	case 0: // long comment
		return "! " + strings.Repeat("c", n-2)
	case 1: // long valid rule
		base := "||long-rule.example^$domain="
		var sb strings.Builder
		sb.WriteString(base)
		i := 0
		for sb.Len() < n-12 {
			if i > 0 {
				sb.WriteByte('|')
			}
			fmt.Fprintf(&sb, "d%d.example", i)
			i++
		}
		s := sb.String()
		for len(s) < n {
			s += "x"
		}

		return s
	default: // long multibyte rule
		s := "||multibyte.example/"
		for len(s) < n-2 {
			s += "é"
		}
		for len(s) < n {
			s += "z"
		}

		return s
	}
}

// c11Content assembles list content.
func c11Content(c *core.Ctx) string {
	var sb strings.Builder
	if c.Rng.Intn(8) == 0 {
		sb.WriteString("\xef\xbb\xbf")
	}
	n := 5 + c.Rng.Intn(60)
	eolMode := c.Rng.Intn(4)
	for i := 0; i < n; i++ {
		var line string
		switch r := c.Rng.Intn(20); {
		case r < 9:
			line = c11ValidLines[c.Rng.Intn(len(c11ValidLines))]
		case r < 14:
			line = c11InertLines[c.Rng.Intn(len(c11InertLines))]
		case r < 16:
			line = c11LongLine(c, []int{4094, 4095, 4096, 4097, 8191, 8192, 8193, 10000}[c.Rng.Intn(8)])
			if c.Rng.Intn(40) == 0 {
				// Beyond the 64 KiB token limit of the standard line scanner.
				line = c11LongLine(c, []int{65535, 65536, 65537, 70000}[c.Rng.Intn(4)])
				c.Event("lines_longer_than_64k", 1)
			}
		case r == 16:
			// Padding that puts the next multibyte character on a buffer boundary.
			pad := 4096 - (sb.Len() % 4096) - 1 - c.Rng.Intn(3)
			if pad > 24 {
				line = "! " + strings.Repeat("p", pad-2-len("||é.example^")) + "||é.example^"
			} else {
				line = "||é.example^"
			}
		case r == 17 && c.Rng.Intn(2) == 0:
			// Hosts lines with tabs, cosmetic-looking comments etc.
			line = c18MakeLine(c).Text
		case r == 17:
			line = "||nul\x00byte.example^"
		case r == 18:
			line = "  \t||indented.example^ \t "
		default:
			line = c11ValidLines[c.Rng.Intn(len(c11ValidLines))] + "\rlone-cr"
		}
		sb.WriteString(line)
		if i == n-1 && c.Rng.Intn(2) == 0 {
			break // no final newline
		}
		switch eolMode {
		case 0:
			sb.WriteString("\n")
		case 1:
			sb.WriteString("\r\n")
		default:
			sb.WriteString([]string{"\n", "\r\n", "\n\n", "\r\n\r\n"}[c.Rng.Intn(4)])
		}
	}

	return sb.String()
}

type c11Entry struct {
	Kind string
	Text string
	List int
	Idx  int64
}

func c11Kind(r rules.Rule) string {
	switch r.(type) {
	case *rules.NetworkRule:
		return "network"
	case *rules.HostRule:
		return "host"
	case *rules.CosmeticRule:
		return "cosmetic"
	}

	return fmt.Sprintf("%T", r)
}

// c11Reference parses content line by line.
func c11Reference(content string, id int, ignoreCosmetic bool) (out []c11Entry) {
	off := 0
	for off < len(content) {
		end := strings.IndexByte(content[off:], '\n')
		var line string
		next := len(content)
		if end == -1 {
			line = content[off:]
		} else {
			line = content[off : off+end]
			next = off + end + 1
		}
		r, err := rules.NewRule(line, id)
		if r != nil && err == nil {
			if _, isCosm := r.(*rules.CosmeticRule); !(isCosm && ignoreCosmetic) {
				out = append(out, c11Entry{Kind: c11Kind(r), Text: r.Text(), List: id, Idx: int64(int32(id))<<32 | int64(off)&0xFFFFFFFF})
			}
		}
		off = next
	}

	return out
}

func c11Scan(s *filterlist.RuleStorage) (out []c11Entry) {
	return c11ScanWith(s, nil)
}

// c11ScanWith scans the storage and calls during (if not nil) for every entry
// while the scan is in progress.
func c11ScanWith(s *filterlist.RuleStorage, during func(e c11Entry)) (out []c11Entry) {
	sc := s.NewRuleStorageScanner()
	for sc.Scan() {
		r, idx := sc.Rule()
		e := c11Entry{Kind: c11Kind(r), Text: r.Text(), List: r.GetFilterListID(), Idx: idx}
		out = append(out, e)
		if during != nil {
			during(e)
		}
	}

	return out
}

type c11Witness struct {
	Backing string `json:"backing"`
	Lists   []int  `json:"list_ids"`
	Sizes   []int  `json:"content_sizes"`
	Content string `json:"content_head,omitempty"`
	Detail  string `json:"detail"`
}

func c11IDs(c *core.Ctx, n int) []int {
	pool := []int{0, 1, -1, math.MinInt32, math.MaxInt32, 2, 1000}
	seen := map[int]bool{}
	var out []int
	for len(out) < n {
		id := pool[c.Rng.Intn(len(pool))]
		if c.Rng.Intn(3) == 0 {
			id = int(int32(c.Rng.Uint32()))
		}
		if !seen[id] {
			seen[id] = true
			out = append(out, id)
		}
	}

	return out
}

func c11Run(c *core.Ctx, idx int) {
	nl := 1 + c.Rng.Intn(4)
	many := c.Rng.Intn(120) == 0
	if many {
		// More lists than an 8-bit counter holds (users of DNS filters do load
		// hundreds of small lists).
		nl = 257 + c.Rng.Intn(40)
		c.Event("storages_with_more_than_256_lists", 1)
	}
	ids := c11IDs(c, nl)
	ignoreCosmetic := c.Rng.Intn(3) == 0
	contents := make([]string, nl)
	for i := range contents {
		if many {
			var sb strings.Builder
			for k, n := 0, 1+c.Rng.Intn(4); k < n; k++ {
				if c.Rng.Intn(3) == 0 {
					sb.WriteString(c11InertLines[c.Rng.Intn(len(c11InertLines))] + "\n")
				}
				name := fmt.Sprintf("many%d-%d.example", i, k)
				sb.WriteString([]string{"||" + name + "^", "0.0.0.0 " + name, name + "##.banner", "@@||" + name + "^$important"}[c.Rng.Intn(4)] + "\n")
			}
			contents[i] = sb.String()

			continue
		}
		contents[i] = c11Content(c)
	}
	if nl >= 2 && c.Rng.Intn(4) == 0 {
		// A list that yields no rule at all, anywhere among the others (with
		// IgnoreCosmetic a list of cosmetic rules is such a list, too).
		contents[c.Rng.Intn(nl)] = []string{"", "! comments only\n# nothing else\n", "||rejected^$nosuchmodifier\n\n", "\n\n", "##.only-cosmetic\nexample.org##.rules\n"}[c.Rng.Intn(5)]
		if nl >= 3 && c.Rng.Intn(2) == 0 {
			contents[c.Rng.Intn(nl)] = ""
		}
	}
	if nl >= 2 && c.Rng.Intn(3) == 0 {
		// Same offsets, different content: same line lengths, other rules.
		contents[1] = strings.NewReplacer("example", "exbmple", "generic", "generjc", "specific", "specifjc").Replace(contents[0])
	}
	sizes := make([]int, nl)
	for i := range contents {
		sizes[i] = len(contents[i])
	}
	head := contents[0]
	if len(head) > 300 {
		head = head[:300]
	}
	wit := func(backing, detail string) c11Witness {
		return c11Witness{Backing: backing, Lists: ids, Sizes: sizes, Content: head, Detail: detail}
	}

	var want []c11Entry
	for i := range contents {
		want = append(want, c11Reference(contents[i], ids[i], ignoreCosmetic)...)
	}

	// String-backed storage.
	strStorage, err := util.StorageIDs(ids, contents, ignoreCosmetic)
	if err != nil {
		c.Violation("storage-rejected", nil, wit("string", err.Error()), "NewRuleStorage rejected distinct ids %v: %v", ids, err)

		return
	}
	// File-backed storage.
	dir, err := os.MkdirTemp(filepath.Join(c.Env.VerifDir, ".work"), "c11f.")
	if err != nil {
		c.Inconclusive("cannot create scratch directory")

		return
	}
	defer os.RemoveAll(dir)
	var fls []filterlist.RuleList
	for i := range contents {
		p := filepath.Join(dir, fmt.Sprintf("l%d.txt", i))
		// The content of a file-backed list is what its file holds when the
		// list is read: one list in six is opened while its file is still
		// being written (a prefix cut anywhere, also inside a line) and gets
		// the rest appended before anything is scanned.
		first := contents[i]
		if c.Rng.Intn(6) == 0 && len(first) > 0 {
			first = first[:c.Rng.Intn(len(first))]
			c.Event("file_lists_that_grow_after_they_are_opened", 1)
		}
		if err = os.WriteFile(p, []byte(first), 0o644); err != nil {
			c.Inconclusive("cannot write scratch file")

			return
		}
		fl, ferr := filterlist.NewFileRuleList(ids[i], p, ignoreCosmetic)
		if ferr != nil {
			c.Violation("file-list-rejected", nil, wit("file", ferr.Error()), "NewFileRuleList: %v", ferr)

			return
		}
		fls = append(fls, fl)
		if len(first) < len(contents[i]) {
			af, aerr := os.OpenFile(p, os.O_WRONLY|os.O_APPEND, 0o644)
			if aerr == nil {
				_, aerr = af.WriteString(contents[i][len(first):])
				_ = af.Close()
			}
			if aerr != nil {
				c.Inconclusive("cannot write scratch file")

				return
			}
		}
	}
	fileStorage, err := filterlist.NewRuleStorage(fls)
	if err != nil {
		c.Violation("storage-rejected", nil, wit("file", err.Error()), "NewRuleStorage rejected distinct ids %v: %v", ids, err)

		return
	}
	defer fileStorage.Close()

	check := func(backing string, s *filterlist.RuleStorage) bool {
		var got []c11Entry
		if c.Rng.Intn(3) == 0 {
			// The indexes are used while the scan is still running (retrieve
			// what was just reported, and now and then something reported
			// earlier): the scan goes on undisturbed.
			var sofar []c11Entry
			mismatch := ""
			got = c11ScanWith(s, func(e c11Entry) {
				sofar = append(sofar, e)
				if c.Rng.Intn(2) == 0 {
					return
				}
				t := e
				if c.Rng.Intn(3) == 0 {
					t = sofar[c.Rng.Intn(len(sofar))]
				}
				r, rerr := s.RetrieveRule(t.Idx)
				c.Eval(1)
				if mismatch == "" && (rerr != nil || r == nil || c11Kind(r) != t.Kind || r.Text() != t.Text || r.GetFilterListID() != t.List) {
					mismatch = fmt.Sprintf("idx %#x scanned %s %q list %d, retrieved during the scan: %v, %v", t.Idx, t.Kind, t.Text, t.List, r, rerr)
				}
			})
			c.Event("scans_with_retrievals_in_progress", 1)
			if mismatch != "" {
				c.Violation("retrieve-during-scan:"+backing, nil, wit(backing, mismatch), "%s-backed storage: %s", backing, mismatch)

				return false
			}
		} else {
			got = c11Scan(s)
		}
		c.Eval(1)
		if len(got) != len(want) {
			c.Violation("scan-length:"+backing, nil, wit(backing, fmt.Sprintf("scanned %d rules, reference %d", len(got), len(want))),
				"%s-backed scan yields %d rules, reference parse %d (lists %v)", backing, len(got), len(want), ids)

			return false
		}
		seen := map[int64]bool{}
		for i := range got {
			if got[i] != want[i] {
				c.Violation("scan-sequence:"+backing, nil, wit(backing, fmt.Sprintf("position %d: got %+v want %+v", i, got[i], want[i])),
					"%s-backed scan differs from the reference parse at position %d: got %+v want %+v", backing, i, got[i], want[i])

				return false
			}
			if seen[got[i].Idx] {
				c.Violation("index-not-injective:"+backing, nil, wit(backing, fmt.Sprintf("index %#x twice", got[i].Idx)), "index %#x reported for two rules", got[i].Idx)

				return false
			}
			seen[got[i].Idx] = true
		}
		// Scan completely, then retrieve: cold, then warm.
		for pass := 0; pass < 2; pass++ {
			order := c.Rng.Perm(len(got))
			for _, k := range order {
				e := got[k]
				r, rerr := s.RetrieveRule(e.Idx)
				c.Eval(1)
				if rerr != nil || r == nil {
					c.Violation("retrieve-failed:"+backing, nil, wit(backing, fmt.Sprintf("idx %#x (%q): %v", e.Idx, e.Text, rerr)),
						"%s-backed RetrieveRule(%#x) failed for scanned rule %q: %v", backing, e.Idx, e.Text, rerr)

					return false
				}
				if c11Kind(r) != e.Kind || r.Text() != e.Text || r.GetFilterListID() != e.List {
					c.Violation("retrieve-mismatch:"+backing, nil, wit(backing, fmt.Sprintf("idx %#x: got %s %q list %d, scanned %s %q list %d", e.Idx, c11Kind(r), r.Text(), r.GetFilterListID(), e.Kind, e.Text, e.List)),
						"%s-backed RetrieveRule(%#x) = %s %q (list %d), scanned %s %q (list %d), pass %d", backing, e.Idx, c11Kind(r), r.Text(), r.GetFilterListID(), e.Kind, e.Text, e.List, pass)

					return false
				}
			}
			// The typed helpers agree with RetrieveRule.
			for _, k := range order[:min(len(order), 12)] {
				e := got[k]
				nr, hr := s.RetrieveNetworkRule(e.Idx), s.RetrieveHostRule(e.Idx)
				c.Eval(1)
				switch {
				case e.Kind == "network" && (nr == nil || nr.Text() != e.Text || hr != nil),
					e.Kind == "host" && (hr == nil || hr.Text() != e.Text || nr != nil),
					e.Kind == "cosmetic" && (nr != nil || hr != nil):
					c.Violation("typed-retrieval-mismatch:"+backing, nil, wit(backing, fmt.Sprintf("idx %#x kind %s", e.Idx, e.Kind)),
						"%s-backed RetrieveNetworkRule/RetrieveHostRule(%#x) disagree with the scanned %s rule %q", backing, e.Idx, e.Kind, e.Text)

					return false
				}
			}
			if s.GetCacheSize() != len(got) {
				c.Violation("cache-size:"+backing, nil, wit(backing, fmt.Sprintf("cache size %d after retrieving %d rules", s.GetCacheSize(), len(got))), "cache size %d after retrieving %d distinct rules", s.GetCacheSize(), len(got))

				return false
			}
		}

		return true
	}
	// A scanner over an arbitrary reader (data arriving in chunks of 1..7 bytes)
	// yields the same sequence as well.
	for i := range contents {
		rd := &c11ChunkReader{data: []byte(contents[i]), rng: c.Rng}
		sc := filterlist.NewRuleScanner(rd, ids[i], ignoreCosmetic)
		var got []c11Entry
		for sc.Scan() {
			r, idx := sc.Rule()
			got = append(got, c11Entry{Kind: c11Kind(r), Text: r.Text(), List: r.GetFilterListID(), Idx: int64(int32(ids[i]))<<32 | int64(idx)&0xFFFFFFFF})
		}
		ref := c11Reference(contents[i], ids[i], ignoreCosmetic)
		c.Eval(1)
		same := len(got) == len(ref)
		for k := 0; same && k < len(got); k++ {
			same = got[k] == ref[k]
		}
		if !same {
			c.Violation("scan-sequence:chunked-reader", nil, wit("chunked reader", fmt.Sprintf("list %d: scanned %d rules, reference %d", ids[i], len(got), len(ref))),
				"RuleScanner over a reader that returns 1..7 bytes per call differs from the reference parse (list %d: %d vs %d rules)", ids[i], len(got), len(ref))
		}
	}
	okS := check("string", strStorage)
	okF := check("file", fileStorage)
	if len(want) > 0 {
		c.NonTrivial(core.Hash64(contents...))
	}
	c.Event("rules_scanned", int64(len(want)))
	c.Event("bytes", int64(len(strings.Join(contents, ""))))
	if !okS || !okF {
		return
	}

	// Engines over both backings answer alike.
	s2, _ := util.StorageIDs(ids, contents, ignoreCosmetic)
	var fls2 []filterlist.RuleList
	for i := range contents {
		fl, _ := filterlist.NewFileRuleList(ids[i], filepath.Join(dir, fmt.Sprintf("l%d.txt", i)), ignoreCosmetic)
		fls2 = append(fls2, fl)
	}
	f2, _ := filterlist.NewRuleStorage(fls2)
	defer f2.Close()
	neS, neF := urlfilter.NewNetworkEngine(s2), urlfilter.NewNetworkEngine(f2)
	dS, dF := urlfilter.NewDNSEngine(s2), urlfilter.NewDNSEngine(f2)
	cS, cF := urlfilter.NewCosmeticEngine(s2), urlfilter.NewCosmeticEngine(f2)
	hosts := []string{"example.org", "ads.example.com", "hosts.example", "one.example", "two.example", "v6.example", "bare-domain.example", "rewrite.example", "é.example", "long-rule.example", "tracker.io", "exbmple.org", "sub.example.org", "indented.example"}
	for _, h := range hosts {
		req := rules.NewRequest("http://"+h+"/banner/ads/x?regex12rule", "http://a.com/", rules.TypeScript)
		a, b := util.Sorted(util.Texts(neS.MatchAll(req))), util.Sorted(util.Texts(neF.MatchAll(req)))
		c.Eval(1)
		if !util.EqualStrings(util.SortedSet(a), util.SortedSet(b)) {
			c.Violation("engines-differ:network", nil, wit("both", fmt.Sprintf("host %s: string %v file %v", h, a, b)), "NetworkEngine.MatchAll for %s: string-backed %v, file-backed %v", h, a, b)
		}
		ra, ma := dS.Match(h)
		rb, mb := dF.Match(h)
		va, vb := c08DNSVerdict(ra, ma, true), c08DNSVerdict(rb, mb, true)
		if d := c08Compare(va, vb, true); d != "" {
			c.Violation("engines-differ:dns", nil, wit("both", "host "+h+": "+d), "DNSEngine.Match(%s): string-backed and file-backed differ: %s", h, d)
		}
		ca, cb := cS.Match(h, true, true, true), cF.Match(h, true, true, true)
		if !util.EqualStrings(util.Sorted(ca.ElementHiding.Generic), util.Sorted(cb.ElementHiding.Generic)) || !util.EqualStrings(util.Sorted(ca.ElementHiding.Specific), util.Sorted(cb.ElementHiding.Specific)) {
			c.Violation("engines-differ:cosmetic", nil, wit("both", "host "+h), "CosmeticEngine.Match(%s): string-backed and file-backed differ", h)
		}
	}
	if c.WantSample() && c.Rng.Intn(30) == 0 {
		c.Sample(map[string]any{"list_ids": ids, "content_sizes": sizes, "rules": len(want), "ignore_cosmetic": ignoreCosmetic, "content_head": head})
	}
}

func init() {
	sizes := map[core.Tier]int{core.Quick: 2000, core.Thorough: 100000}
	core.Register(&core.Prop{
		ID:    "C11",
		Level: "exploration",
		Rule: "per case 1..4 lists with distinct ids from {0, 1, -1, MinInt32, MaxInt32, random int32}, contents assembled from valid rules of every kind, comments, blanks and rejects with LF / CRLF / mixed / lone CR, with and without a final newline, BOM, NUL bytes, multi-byte characters placed on the 4 KiB buffer boundary, lines of 4094..10000 bytes (one long line in forty: 65535..70000 bytes), one storage in 120 with 257..296 lists, one file list in six opened on a prefix of its content that grows to the full content before the first scan, IgnoreCosmetic on/off, and a second list with identical offsets but different content; " +
			"for the String-backed and the File-backed storage: scan sequence == line-by-line reference parse (kind, text, list id, index), indexes injective, RetrieveRule(idx) == scanned rule cold and warm in random order, cache size, and engines over both backings answer a request sample identically; non-trivial = storage with at least one rule; distinct by content",
		Assumptions: []string{
			"scan completely, then retrieve (the two readers of a FileRuleList share one file offset)",
			"the reference parse uses rules.NewRule on each line, as the statement defines it",
		},
		Cases: func(t core.Tier) int { return sizes[t] },
		Run:   c11Run,
	})
}

// c11ChunkReader returns the data in chunks of 1..7 bytes.
type c11ChunkReader struct {
	data []byte
	rng  interface{ Intn(int) int }
}

func (r *c11ChunkReader) Read(p []byte) (int, error) {
	if len(r.data) == 0 {
		return 0, io.EOF
	}
	n := 1 + r.rng.Intn(7)
	if n > len(r.data) {
		n = len(r.data)
	}
	if n > len(p) {
		n = len(p)
	}
	copy(p, r.data[:n])
	r.data = r.data[n:]

	return n, nil
}
