package props

import (
	"fmt"
	"github.com/AdguardTeam/urlfilter/filterlist"
	"os"
	"path/filepath"
	"strconv"
	"strings"

	"github.com/AdguardTeam/urlfilter"
	"github.com/AdguardTeam/urlfilter/rules"

	"verifharness/internal/core"
	"verifharness/internal/util"
)

// C16: exception modifiers only ever switch cosmetic options off.
//
// Exhaustive over the 2^9 subsets of the modifiers of the statement; every
// subset is observed through the rule object, through the full engine on a
// document request, and decoded by Engine.GetCosmeticResult, with no other
// rule, a plain blocking rule and an important blocking rule next to it.

var c16Mods = []string{"elemhide", "generichide", "jsinject", "document", "urlblock", "genericblock", "content", "extension", "important"}

func c16Expected(mask int) rules.CosmeticOption {
	has := func(name string) bool {
		for i, m := range c16Mods {
			if m == name {
				return mask&(1<<i) != 0
			}
		}

		return false
	}
	opt := rules.CosmeticOptionAll
	if has("elemhide") || has("document") {
		opt &^= rules.CosmeticOptionCSS | rules.CosmeticOptionGenericCSS
	}
	if has("generichide") {
		opt &^= rules.CosmeticOptionGenericCSS
	}
	if has("jsinject") || has("document") {
		opt &^= rules.CosmeticOptionJS
	}

	return opt
}

func c16RuleText(c *core.Ctx, mask int) string {
	var mods []string
	for i, m := range c16Mods {
		if mask&(1<<i) != 0 {
			mods = append(mods, m)
		}
	}
	// A modifier may legally be written more than once; that is the same set.
	if len(mods) > 0 && c.Rng.Intn(3) == 0 {
		for i, n := 0, 1+c.Rng.Intn(2); i < n; i++ {
			mods = append(mods, mods[c.Rng.Intn(len(mods))])
		}
	}
	mods = util.Shuffle(c.Rng, mods)
	// An empty component (doubled, leading or trailing comma) is legal and
	// means nothing.
	if len(mods) > 0 && c.Rng.Intn(4) == 0 {
		i := c.Rng.Intn(len(mods) + 1)
		mods = append(mods[:i], append([]string{""}, mods[i:]...)...)
	}
	text := "@@||example.org^"
	if len(mods) > 0 {
		text += "$" + strings.Join(mods, ",")
	}

	return text
}

type c16Witness struct {
	Rule     string `json:"rule"`
	Other    string `json:"other_rule,omitempty"`
	Via      string `json:"via"`
	Got      uint32 `json:"got"`
	Expected uint32 `json:"expected"`
}

// c16Observe returns the cosmetic option observed for the exception rule with
// the given modifier mask under every access path; all paths must agree with
// want.
func c16Observe(c *core.Ctx, mask int, other string, want rules.CosmeticOption) (obs rules.CosmeticOption, ok bool) {
	text := c16RuleText(c, mask)
	// One rendering in eight is longer than the read buffer of a file-backed
	// list: a long $denyallow list (of hosts that are not asked about) stands
	// before the other modifiers, and the list is backed by a file.
	long := c.Rng.Intn(8) == 0
	if long {
		var fill []string
		for i := 0; i < 230+c.Rng.Intn(60); i++ {
			fill = append(fill, "f"+strconv.Itoa(i)+".filler.example")
		}
		head, mods, has := strings.Cut(text, "$")
		text = head + "$denyallow=" + strings.Join(fill, "|")
		if has && mods != "" {
			text += "," + mods
		}
	}
	ok = true
	// When the exception also matches the referrer and carries $urlblock,
	// $document or $genericblock, it suppresses the (generic) blocking rule next
	// to it, so the exception itself is the verdict whatever the other rule is.
	wantWithReferrer := want
	hasBit := func(name string) bool {
		for i, m := range c16Mods {
			if m == name {
				return mask&(1<<i) != 0
			}
		}

		return false
	}
	if hasBit("urlblock") || hasBit("document") || hasBit("genericblock") {
		wantWithReferrer = c16Expected(mask)
	}
	baseWant := want
	judge := func(via string, got rules.CosmeticOption) {
		want := baseWant
		if strings.Contains(via, "referrer") && !strings.Contains(via, "unrelated") {
			want = wantWithReferrer
		}
		c.Eval(1)
		if got != want {
			ok = false
			c.Violation(fmt.Sprintf("option-mismatch:%s", via), nil,
				c16Witness{Rule: text, Other: other, Via: via, Got: uint32(got), Expected: uint32(want)},
				"%s with %q next to it: cosmetic option via %s is %03b, expected %03b", text, other, via, got, want)
		}
		obs = got
	}

	// Path 1: rule objects through NewMatchingResult.
	r, err := rules.NewNetworkRule(text, 1)
	if err != nil {
		c.Violation("parse-error", nil, c16Witness{Rule: text}, "exception rule %q rejected: %v", text, err)

		return 0, false
	}
	rs := []*rules.NetworkRule{r}
	if other != "" {
		o, oerr := rules.NewNetworkRule(other, 1)
		if oerr != nil {
			panic(oerr)
		}
		if c.Rng.Intn(2) == 0 {
			rs = []*rules.NetworkRule{o, r}
		} else {
			rs = append(rs, o)
		}
	}
	judge("NewMatchingResult", rules.NewMatchingResult(rs, nil).GetCosmeticOption())
	// The same rules may match the referrer as well (a page requesting itself,
	// or a sub-request of a page covered by the same exception): the exception
	// of the request itself still decides the options.
	judge("NewMatchingResult(with the same rules as referrer rules)", rules.NewMatchingResult(append([]*rules.NetworkRule(nil), rs...), append([]*rules.NetworkRule(nil), rs...)).GetCosmeticOption())

	// A caller may evaluate the slice it holds more than once (first without,
	// then with the rules of the referrer): a cancelled pair - an important
	// blocking rule and its $badfilter twin - next to the exception leaves the
	// exception as the verdict every time.
	if other == "" {
		bf, e1 := rules.NewNetworkRule("||example.org^$important,badfilter", 1)
		bl, e2 := rules.NewNetworkRule("||example.org^$important", 1)
		if e1 == nil && e2 == nil {
			held := util.Shuffle(c.Rng, []*rules.NetworkRule{bf, bl, r})
			if c.Rng.Intn(2) == 0 {
				held = []*rules.NetworkRule{bf, bl, r}
			}
			for call := 1; call <= 3; call++ {
				judge(fmt.Sprintf("NewMatchingResult(cancelled important pair next to the exception, evaluation %d of the same slice)", call), rules.NewMatchingResult(held, nil).GetCosmeticOption())
			}
			c.Event("slices_evaluated_three_times", 1)
		}
	}

	// The same exception for a site with a single-label name (a NAS, a router,
	// localhost), restricted to pages of that site: the rule has no literal of
	// five characters, so the engine finds it through the referring host.
	if other == "" && !long {
		host := []string{"nas", "localhost", "tv"}[c.Rng.Intn(3)]
		t := strings.Replace(text, "||example.org^", "||"+host+"^", 1)
		if strings.Contains(t, "$") {
			t += ",domain=" + host
		} else {
			t += "$domain=" + host
		}
		if _, perr := rules.NewNetworkRule(t, 1); perr == nil {
			e1 := urlfilter.NewEngine(util.Storage(util.Lines([]string{"##.generic-banner", t})))
			judge("Engine.MatchRequest(single-label site)", e1.MatchRequest(rules.NewRequest("http://"+host+"/", "http://"+host+"/index.html", rules.TypeDocument)).GetCosmeticOption())
			c.Event("engine_requests_for_a_single_label_site", 1)
		}
	}

	// Path 2: the full engine on a document request.
	list := []string{text, "##.generic-banner", "~excluded.example##.generic-with-exclusion", "example.org##.specific-banner", "example.*##.specific-wildcard", "other.example##.not-here"}
	if other != "" {
		list = append(list, other)
	}
	list = util.Shuffle(c.Rng, list)
	storage := util.StorageSplit(c.Rng, list)
	if c.Rng.Intn(3) == 0 {
		// The network rules in a list that is loaded without its cosmetic rules
		// (IgnoreCosmetic), the cosmetic rules in another one: which options a
		// verdict switches off does not depend on where the rules live.
		var netLines, cosLines []string
		for _, l := range list {
			if strings.Contains(l, "##") {
				cosLines = append(cosLines, l)
			} else {
				netLines = append(netLines, l)
			}
		}
		if s, serr := filterlist.NewRuleStorage([]filterlist.RuleList{
			&filterlist.StringRuleList{ID: 0, RulesText: util.Lines(netLines), IgnoreCosmetic: true},
			&filterlist.StringRuleList{ID: 1, RulesText: util.Lines(cosLines)},
		}); serr == nil {
			storage = s
		}
	}
	grows := !long && c.Rng.Intn(8) == 0
	if long || grows {
		if dir, derr := os.MkdirTemp(filepath.Join(c.Env.VerifDir, ".work"), "c16f."); derr == nil {
			defer os.RemoveAll(dir)
			fn := filepath.Join(dir, "list.txt")
			content, rest := util.Lines(list), ""
			if grows {
				// A user-rules file that is still being edited when the list is
				// opened: the exception is appended afterwards, before the engine
				// is built.
				at := strings.Index(content, text+"\n")
				content, rest = content[:at], content[at:]
				c.Event("file_backed_lists_that_grow_after_they_are_opened", 1)
			}
			if rest == "" {
				content = util.ChopEOL(content)
			}
			if os.WriteFile(fn, []byte(content), 0o644) == nil {
				if fl, ferr := filterlist.NewFileRuleList(0, fn, false); ferr == nil {
					if rest != "" {
						if af, aerr := os.OpenFile(fn, os.O_WRONLY|os.O_APPEND, 0o644); aerr == nil {
							_, _ = af.WriteString(rest)
							_ = af.Close()
						}
					}
					if fs, serr := filterlist.NewRuleStorage([]filterlist.RuleList{fl}); serr == nil {
						storage = fs
						defer fs.Close()
						if long {
							c.Event("file_backed_lists_with_a_rule_longer_than_4k", 1)
						}
					}
				}
			}
		}
	}
	eng := urlfilter.NewEngine(storage)
	req := rules.NewRequest("http://example.org/", "", rules.TypeDocument)
	res := eng.MatchRequest(req)
	got := res.GetCosmeticOption()
	judge("Engine.MatchRequest", got)
	srcs := []string{"http://example.org/", "http://example.org/other/page"}
	if !strings.Contains(other, "domain=") {
		// (capital letters in the referrer; $domain values are compared as written)
		srcs = append(srcs, "HTTP://EXAMPLE.org/Other")
	}
	for _, src := range srcs {
		judge("Engine.MatchRequest(with referrer)", eng.MatchRequest(rules.NewRequest("http://example.org/", src, rules.TypeDocument)).GetCosmeticOption())
	}
	judge("Engine.MatchRequest(unrelated source)", eng.MatchRequest(rules.NewRequest("http://example.org/", "http://unrelated.example.net/", rules.TypeDocument)).GetCosmeticOption())
	// The proxy matches a request object twice: when the request arrives (the
	// content type is still a guess) and again when the response headers show
	// that it is a document.
	reused := rules.NewRequest("http://example.org/", "", rules.TypeScript)
	_ = eng.MatchRequest(reused).GetCosmeticOption()
	reused.RequestType = rules.TypeDocument
	judge("Engine.MatchRequest(request object matched before as a script)", eng.MatchRequest(reused).GetCosmeticOption())

	// Path 3: decoded by GetCosmeticResult.
	cr := eng.GetCosmeticResult("example.org", got)
	wantCSS := want&rules.CosmeticOptionCSS != 0
	wantGeneric := wantCSS && want&rules.CosmeticOptionGenericCSS != 0
	hasGeneric := util.EqualStrings(util.Sorted(cr.ElementHiding.Generic), []string{".generic-banner", ".generic-with-exclusion"})
	hasSpecific := util.EqualStrings(util.Sorted(cr.ElementHiding.Specific), []string{".specific-banner", ".specific-wildcard"})
	if !wantGeneric {
		hasGeneric = len(cr.ElementHiding.Generic) > 0
	}
	if !wantCSS {
		hasSpecific = len(cr.ElementHiding.Specific) > 0
	}
	c.Eval(1)
	if hasGeneric != wantGeneric || hasSpecific != wantCSS {
		ok = false
		c.Violation("decoded-result-mismatch", nil,
			c16Witness{Rule: text, Other: other, Via: "GetCosmeticResult", Got: uint32(got), Expected: uint32(want)},
			"%s: GetCosmeticResult(option %03b) generic=%v specific=%v, expected generic=%v specific=%v",
			text, got, hasGeneric, hasSpecific, wantGeneric, wantCSS)
	}

	return obs, ok
}

// c16Expand returns the set of options a modifier mask enables ($document is
// five of them).
func c16Expand(mask int) map[string]bool {
	out := map[string]bool{}
	for i, m := range c16Mods {
		if mask&(1<<i) == 0 {
			continue
		}
		if m == "document" {
			for _, o := range []string{"elemhide", "jsinject", "urlblock", "content", "extension"} {
				out[o] = true
			}
		} else {
			out[m] = true
		}
	}

	return out
}

// c16StrictSubset returns a $badfilter exception whose modifiers are a strict
// subset (as option sets) of those of mask, or "".
func c16StrictSubset(c *core.Ctx, mask int) string {
	full := c16Expand(mask)
	for _, i := range c.Rng.Perm(len(c16Mods)) {
		if mask&(1<<i) == 0 {
			continue
		}
		sub := mask &^ (1 << i)
		if c.Rng.Intn(2) == 0 {
			sub = 1 << i
		}
		if sub == 0 || len(c16Expand(sub)) == len(full) {
			continue
		}
		var mods []string
		for j, m := range c16Mods {
			if sub&(1<<j) != 0 {
				mods = append(mods, m)
			}
		}

		return "@@||example.org^$" + strings.Join(append(mods, "badfilter"), ",")
	}

	return ""
}

func init() {
	core.Register(&core.Prop{
		ID:    "C16",
		Level: "exploration",
		Rule: "(engine path: one list in eight is file-backed and gets the exception appended after the list is opened) one case per subset of {elemhide,generichide,jsinject,document,urlblock,genericblock,content,extension,important} on an exception rule (all 512, each in 8 (thorough 200) renderings; modifiers in PRNG order, one in three renderings repeats a modifier), " +
			"each observed via NewMatchingResult, Engine.MatchRequest and GetCosmeticResult with no other rule, a plain blocking rule, an important blocking rule and a domain-specific blocking rule, " +
			"plus the monotonicity check against every one-modifier superset; non-trivial = subset that contains a cosmetic-relevant modifier; distinct by subset",
		Assumptions: []string{
			"$document stands for elemhide+jsinject+urlblock+content+extension as documented in loadOption",
			"an important blocking rule outranks a non-important exception (C06), in which case every option stays enabled",
		},
		Cases:      func(t core.Tier) int { return 512 * map[core.Tier]int{core.Quick: 8, core.Thorough: 200}[t] },
		Exhaustive: func(core.Tier) bool { return true },
		Run: func(c *core.Ctx, idx int) {
			mask := idx % 512
			want := c16Expected(mask)
			importantBit := 1 << 8
			others := []string{"", "||example.org^", "||example.org^$important", "||example.org^$domain=example.org|example.net"}
			// A $badfilter rule that carries only SOME of the exception's
			// modifiers is not its twin and changes nothing.
			if sub := c16StrictSubset(c, mask); sub != "" {
				others = append(others, sub)
			}
			for _, other := range others {
				w := want
				if other == "||example.org^$important" && mask&importantBit == 0 {
					w = rules.CosmeticOptionAll
				}
				obs, ok := c16Observe(c, mask, other, w)
				if !ok || other != "" {
					continue
				}
				// Monotone: adding a modifier never sets a bit.
				for i := range c16Mods {
					if mask&(1<<i) != 0 {
						continue
					}
					sup := mask | 1<<i
					r, err := rules.NewNetworkRule(c16RuleText(c, sup), 1)
					if err != nil {
						continue
					}
					o2 := rules.NewMatchingResult([]*rules.NetworkRule{r}, nil).GetCosmeticOption()
					c.Eval(1)
					if o2&^obs != 0 {
						c.Violation("not-monotone", nil,
							c16Witness{Rule: c16RuleText(c, mask), Other: "+" + c16Mods[i], Via: "superset", Got: uint32(o2), Expected: uint32(obs)},
							"adding $%s to %s re-enables an option: %03b -> %03b", c16Mods[i], c16RuleText(c, mask), obs, o2)
					}
				}
			}
			if want != rules.CosmeticOptionAll {
				c.NonTrivial(uint64(mask))
			}
			if c.WantSample() && mask%37 == 5 {
				c.Sample(map[string]any{"rule": c16RuleText(c, mask), "expected_option": uint32(want)})
			}
		},
	})
}
