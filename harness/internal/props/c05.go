package props

import (
	"bufio"
	"math/rand"
	"os"
	"path/filepath"
	"regexp"
	"regexp/syntax"
	"strings"
	"unicode"

	"github.com/AdguardTeam/urlfilter/rules"

	"verifharness/internal/core"
	"verifharness/internal/gen"
	"verifharness/internal/util"
)

// C05: the shortcut pre-check never rejects a request the rule accepts.

// c05Walk produces one string of the language of re by a random walk that is
// biased towards the shapes that defeat literal heuristics: the other branch
// of an alternation, zero repetitions, a digit where an escape letter was.
func c05Walk(rng *rand.Rand, re *syntax.Regexp, sb *strings.Builder, depth int) {
	switch re.Op {
	case syntax.OpLiteral:
		for _, r := range re.Rune {
			if re.Flags&syntax.FoldCase != 0 && rng.Intn(3) == 0 {
				if unicode.IsLower(r) {
					r = unicode.ToUpper(r)
				} else if unicode.IsUpper(r) {
					r = unicode.ToLower(r)
				}
			}
			if r < 128 {
				sb.WriteRune(r)
			} else {
				sb.WriteRune(unicode.SimpleFold(r))
			}
		}
	case syntax.OpCharClass:
		if len(re.Rune) == 0 {
			return
		}
		// Candidates: boundaries of every range plus typical members.
		var cands []rune
		for i := 0; i+1 < len(re.Rune); i += 2 {
			lo, hi := re.Rune[i], re.Rune[i+1]
			if lo < 128 {
				cands = append(cands, lo)
			}
			if hi < 128 {
				cands = append(cands, hi)
			}
			for _, t := range "0a9zZA/_-.%" {
				if t >= lo && t <= hi {
					cands = append(cands, t)
				}
			}
		}
		if len(cands) == 0 {
			return
		}
		sb.WriteRune(cands[rng.Intn(len(cands))])
	case syntax.OpAnyChar, syntax.OpAnyCharNotNL:
		sb.WriteByte("z0/-A."[rng.Intn(6)])
	case syntax.OpCapture:
		c05Walk(rng, re.Sub[0], sb, depth+1)
	case syntax.OpStar:
		for i, n := 0, []int{0, 0, 1, 2}[rng.Intn(4)]; i < n; i++ {
			c05Walk(rng, re.Sub[0], sb, depth+1)
		}
	case syntax.OpPlus:
		for i, n := 0, []int{1, 1, 2, 3}[rng.Intn(4)]; i < n; i++ {
			c05Walk(rng, re.Sub[0], sb, depth+1)
		}
	case syntax.OpQuest:
		if rng.Intn(2) == 0 {
			c05Walk(rng, re.Sub[0], sb, depth+1)
		}
	case syntax.OpRepeat:
		n := re.Min
		if re.Max != re.Min && rng.Intn(2) == 0 {
			if re.Max < 0 || re.Max > re.Min+1 {
				n = re.Min + 1 + rng.Intn(2)
			} else {
				n = re.Max
			}
		}
		if n > 400 {
			n = 400
		}
		for i := 0; i < n; i++ {
			c05Walk(rng, re.Sub[0], sb, depth+1)
		}
	case syntax.OpConcat:
		for _, s := range re.Sub {
			c05Walk(rng, s, sb, depth+1)
		}
	case syntax.OpAlternate:
		c05Walk(rng, re.Sub[rng.Intn(len(re.Sub))], sb, depth+1)
	default:
		// Empty-width assertions and empty matches contribute nothing; the
		// real regexp filters the candidate afterwards.
	}
}

// c05RegexGrammar produces a regular-expression rule text.
func c05RegexGrammar(rng *rand.Rand) string {
	words := []string{"banner", "adserver", "tracking", "pixel", "promo", "counter", "analytics", "popunder", "click", "abcdef", "foo", "barbazqux", "ads", "img", "stat"}
	word := func() string { return words[rng.Intn(len(words))] }
	var atom func(d int) string
	atom = func(d int) string {
		switch rng.Intn(14) {
		case 0, 1, 2:
			return word()
		case 3:
			return "(" + word() + "|" + word() + ")"
		case 4:
			return "[a-z]"
		case 5:
			return "[0-9]"
		case 6:
			return []string{`\d`, `\w`, `\s`, `\b`, `\.`, `\/`, `\-`, `\x41`, `\x2f`, `\D`, `\W`}[rng.Intn(11)]
		case 7:
			if d < 2 {
				return "(" + atom(d+1) + atom(d+1) + ")"
			}

			return word()
		case 8:
			return "[^/]"
		case 9:
			return "."
		case 10:
			return "(" + word() + ")"
		case 11:
			// A class escape directly between two literal runs; the letter
			// before the backslash may be the letter of the escape (ad\d_banner,
			// news\sfeed, sw\w-loader).
			w := word()
			if rng.Intn(2) == 0 {
				w = []string{"ad", "road", "news", "ads", "sw", "show", "window", "d", "s", "w"}[rng.Intn(10)]
			}
			esc := `\d`
			if last := w[len(w)-1]; strings.IndexByte("dws", last) >= 0 && rng.Intn(3) > 0 {
				esc = `\` + string(last)
				if rng.Intn(6) == 0 {
					esc = strings.ToUpper(esc)
				}
			}
			tail := word()
			if rng.Intn(2) == 0 {
				tail = []string{"_banner", "feed_widget", "-loader", "_ad", "x"}[rng.Intn(5)]
			}

			return w + esc + tail
		case 12:
			return "[" + word()[:2] + "]"
		default:
			return word()[:1+rng.Intn(3)]
		}
	}
	quant := func(a string) string {
		switch rng.Intn(9) {
		case 0:
			return a + "*"
		case 1:
			return a + "+"
		case 2:
			return a + "{0,2}"
		case 3:
			return a + "{2}"
		case 4:
			return a + "{1,3}"
		case 5:
			if rng.Intn(4) == 0 {
				return a + "?"
			}
		}

		return a
	}
	var sb strings.Builder
	n := 1 + rng.Intn(5)
	for i := 0; i < n; i++ {
		sb.WriteString(quant(atom(0)))
	}
	expr := sb.String()
	if rng.Intn(4) == 0 {
		// Top-level alternation.
		var sb2 strings.Builder
		for i, m := 0, 1+rng.Intn(3); i < m; i++ {
			sb2.WriteString(quant(atom(0)))
		}
		expr = expr + "|" + sb2.String()
	}
	if rng.Intn(5) == 0 {
		expr = "^https?:\\/\\/" + expr
	}

	return "/" + expr + "/"
}

var c05RealRegexRules []string

func c05LoadReal(env *core.Env) {
	for _, f := range []string{"testdata/easylist.txt", "testdata/adguard_sdn_filter.txt", "examples/proxy/adguard_russian_filter.txt"} {
		fh, err := os.Open(filepath.Join(env.RepoDir, f))
		if err != nil {
			continue
		}
		sc := bufio.NewScanner(fh)
		sc.Buffer(make([]byte, 1<<20), 1<<24)
		for sc.Scan() {
			l := strings.TrimSpace(sc.Text())
			t := strings.TrimPrefix(l, "@@")
			if len(t) > 2 && t[0] == '/' && !strings.Contains(l, "##") && !strings.Contains(l, "#@#") && !strings.Contains(l, "#?#") && !strings.Contains(l, "#$#") && !strings.Contains(l, "#%#") {
				r, perr := rules.NewNetworkRule(l, 1)
				if perr == nil && r.IsRegexRule() {
					c05RealRegexRules = append(c05RealRegexRules, l)
				}
			}
		}
		_ = fh.Close()
	}
}

type c05Witness struct {
	Rule     string `json:"rule"`
	Shortcut string `json:"shortcut"`
	URL      string `json:"url"`
	Compiled string `json:"compiled_regexp,omitempty"`
}

// c05Tags classifies a failing regular-expression rule narrowly, for the
// known-findings mechanism.
func c05Tags(expr string) (tags []string) {
	parsed, err := syntax.Parse(expr, syntax.Perl)
	if err != nil {
		return nil
	}
	if parsed.Op == syntax.OpAlternate {
		tags = append(tags, "regex-top-level-alternation")
	}

	return tags
}

// c05Seen remembers rule texts checked earlier in this process for the
// second-use re-checks after a churn phase.
var (
	c05Seen    []string
	c05Checked int
)

func c05CheckRule(c *core.Ctx, text string, walks int, useMatch bool) {
	c05Checked++
	if len(c05Seen) < 2048 {
		c05Seen = append(c05Seen, text)
	} else {
		c05Seen[c.Rng.Intn(len(c05Seen))] = text
	}
	if c05Checked%150 == 0 && !c.Env.Replay {
		churnRules(c, 9000)
		for k := 0; k < 5; k++ {
			c05CheckOne(c, c05Seen[c.Rng.Intn(len(c05Seen))], walks, false)
		}
		c.Event("second_use_rechecks_after_churn", 5)
	}
	c05CheckOne(c, text, walks, useMatch)
}

// hostOfCandidate returns the host part of a URL-like string, or "".
func hostOfCandidate(u string) string {
	i := strings.Index(u, "://")
	if i < 0 {
		return ""
	}
	h := u[i+3:]
	if j := strings.IndexAny(h, "/?#:"); j >= 0 {
		h = h[:j]
	}
	if h == "" || len(h) > 200 || strings.ContainsAny(h, " \n\t") {
		return ""
	}

	return h
}

func c05CheckOne(c *core.Ctx, text string, walks int, useMatch bool) {
	r, err := rules.NewNetworkRule(text, 1)
	if err != nil {
		c.Inconclusive("rule-rejected-by-parser")

		return
	}
	w := c05Witness{Rule: text, Shortcut: r.Shortcut}
	var status int
	var matcher interface{ MatchString(string) bool }
	if c.Guard("preparePattern", nil, w, func() {
		re, st := rules.VerifPrepared(r)
		status = st
		if re != nil {
			matcher = re
			w.Compiled = re.String()
		}
	}) {
		return
	}
	if status == -1 {
		c.Event("rules_not_compilable", 1)

		return
	}
	if r.Shortcut == "" {
		c.Event("rules_without_shortcut", 1)
	}

	pattern := rules.VerifPattern(r)
	var candidates []string
	if r.IsRegexRule() {
		expr := pattern[1 : len(pattern)-1]
		flags := syntax.Perl
		if !r.IsOptionEnabled(rules.OptionMatchCase) {
			flags |= syntax.FoldCase
		}
		parsed, perr := syntax.Parse(expr, flags)
		if perr != nil {
			c.Inconclusive("regexp-syntax-parse-failed")

			return
		}
		for i := 0; i < walks; i++ {
			var sb strings.Builder
			c05Walk(c.Rng, parsed, &sb, 0)
			s := sb.String()
			if len(s) > 3500 {
				continue
			}
			candidates = append(candidates, s, "http://z.zz/"+s, s+"/z", "https://q.example/p?"+s+"&x=1")
		}
	} else {
		for _, u := range c03Witnesses(c, pattern, r.IsOptionEnabled(rules.OptionMatchCase)) {
			candidates = append(candidates, u)
		}
		// Also walk the expression the rule REALLY compiled (not the mask it was
		// written as): whatever that accepts must contain the shortcut.
		if w.Compiled != "" {
			if parsed, perr := syntax.Parse(w.Compiled, syntax.Perl); perr == nil {
				for i := 0; i < walks/2+4; i++ {
					var sb strings.Builder
					c05Walk(c.Rng, parsed, &sb, 0)
					if s := sb.String(); len(s) < 3500 {
						candidates = append(candidates, s, s+"/z", s+"?q=1")
					}
				}
			}
		}
	}

	accepted := 0
	for _, u := range candidates {
		if strings.ContainsAny(u, "\n") {
			continue
		}
		ok := status == 0 || matcher.MatchString(u)
		if !ok {
			continue
		}
		accepted++
		c.Eval(1)
		if !strings.Contains(strings.ToLower(u), r.Shortcut) {
			w2 := w
			w2.URL = u
			var tags []string
			kind := "mask"
			if r.IsRegexRule() {
				kind = "regex"
				tags = c05Tags(pattern[1 : len(pattern)-1])
			}
			c.Violation("shortcut-missing-from-accepted-url:"+kind, tags, w2,
				"rule %q: compiled pattern accepts %q but the lower-cased URL does not contain the shortcut %q", text, u, r.Shortcut)

			break
		}
		if useMatch {
			req := rules.NewRequest(u, "", rules.TypeOther)
			if req.URL != u {
				continue
			}
			var got bool
			w2 := w
			w2.URL = u
			if !c.Guard("NetworkRule.Match", nil, w2, func() { got = r.Match(req) }) && !got {
				c.Violation("match-false-although-pattern-accepts", nil, w2,
					"modifier-free rule %q: compiled pattern accepts %q but Match is false (shortcut %q)", text, u, r.Shortcut)

				break
			}
		}
	}
	// The same relation on whole requests, with the rule's own two tests (hooks
	// VerifMatchPattern / VerifMatchShortcut): whatever the rule applies its
	// pattern to for a kind of request (URL requests, hostname requests made by
	// either constructor), the pre-check must let every accepted request through.
	if len(candidates) > 0 {
		hosts := map[string]bool{}
		for _, u := range candidates[:min(len(candidates), 12)] {
			if h := hostOfCandidate(u); h != "" {
				hosts[h] = true
			}
		}
		for _, h := range regexp.MustCompile(`[A-Za-z0-9-]+(\.[A-Za-z0-9-]+)+`).FindAllString(pattern, 3) {
			hosts[h] = true
			hosts["sub."+h] = true
		}
		var reqs []*rules.Request
		for _, u := range candidates[:min(len(candidates), 6)] {
			if !strings.ContainsAny(u, "\n") {
				reqs = append(reqs, rules.NewRequest(u, "", rules.TypeOther))
			}
		}
		for h := range hosts {
			// (the hostname constructors take lower-case names: validation and
			// normalisation are the caller's, as the DNS engine's callers do)
			h = strings.ToLower(h)
			reqs = append(reqs, rules.NewRequestForHostname(h))
			reused := rules.NewRequest("https://other.example.net/x", "https://source.example/", rules.TypeScript)
			rules.FillRequestForHostname(reused, h)
			reqs = append(reqs, reused)
		}
		for _, req := range reqs {
			var acc, pre bool
			w2 := w
			w2.URL = req.URL
			if c.Guard("pattern-and-shortcut-tests", nil, w2, func() { acc, pre = rules.VerifMatchPattern(r, req), rules.VerifMatchShortcut(r, req) }) {
				break
			}
			c.Eval(1)
			if acc {
				c.Event("requests_accepted_by_the_pattern_test", 1)
				if req.IsHostnameRequest {
					c.Event("hostname_requests_accepted_by_the_pattern_test", 1)
				}
			}
			if acc && !pre {
				c.Violation("precheck-rejects-request-the-pattern-accepts", nil, w2,
					"rule %q: its pattern test accepts the request (url %q, hostname request: %v) but its shortcut pre-check (shortcut %q) rejects it", text, req.URL, req.IsHostnameRequest, r.Shortcut)

				break
			}
		}
	}

	// Requests longer than the URL length cap: whatever part of the URL the rule
	// is matched against (the request's own URL field), a compiled pattern that
	// accepts it must not be vetoed by the pre-check.
	if useMatch && matcher != nil && len(candidates) > 0 {
		for i := 0; i < 3; i++ {
			u := candidates[c.Rng.Intn(len(candidates))]
			if strings.ContainsAny(u, "\n") || !matcher.MatchString(u) {
				continue
			}
			pad := strings.Repeat("p", 4000+c.Rng.Intn(300))
			long := []string{"http://pad.example/" + pad + "/" + u, u + "/" + pad, "http://pad.example/?" + pad + "=" + u + "&" + pad}[c.Rng.Intn(3)]
			req := rules.NewRequest(long, "", rules.TypeOther)
			if !matcher.MatchString(req.URL) {
				continue
			}
			c.Eval(1)
			c.Event("long_url_witnesses", 1)
			w2 := w
			w2.URL = long
			var got bool
			if !c.Guard("NetworkRule.Match", nil, w2, func() { got = r.Match(req) }) && !got {
				c.Violation("match-false-although-pattern-accepts:long-url", nil, w2,
					"modifier-free rule %q: compiled pattern accepts the URL field of a %d-byte request (%d bytes kept) but Match is false (shortcut %q)", text, len(long), len(req.URL), r.Shortcut)

				break
			}
		}
	}
	c.Event("accepted_witnesses", int64(accepted))
	if r.Shortcut != "" && accepted > 0 {
		c.NonTrivial(core.Hash64(text))
		if r.IsRegexRule() {
			c.Event("regex_rules_with_shortcut_and_witness", 1)
		} else {
			c.Event("mask_rules_with_shortcut_and_witness", 1)
		}
		if c.WantSample() && c.Rng.Intn(40) == 0 {
			c.Sample(map[string]any{"rule": text, "shortcut": r.Shortcut, "accepted_witnesses": accepted})
		}
	}
}

func init() {
	sizes := map[core.Tier]int{core.Quick: 6000, core.Thorough: 800000}
	walks := map[core.Tier]int{core.Quick: 60, core.Thorough: 400}
	core.Register(&core.Prop{
		ID:    "C05",
		Level: "exploration",
		Rule: "rules: regular-expression rules from a grammar (top-level and grouped alternation, nested groups, classes, escapes \\d \\w \\s \\b \\xHH, quantifiers * + {m,n}, some '?'), every regex rule of the bundled lists, mask patterns, and groups of rules whose whole texts collide under FastHash created one after the other; " +
			"for each rule witness strings are synthesised by biased random walks over the regexp/syntax tree (other branch, zero repetitions, class boundaries, case flips) and near-miss edits, filtered by the rule's own compiled regexp (hook VerifPrepared); " +
			"every accepted string must contain the shortcut after lower-casing and modifier-free rules must Match it; non-trivial = rule with a non-empty shortcut and at least one accepted witness; distinct by rule text",
		Assumptions: []string{
			"acceptance is sampled from the rule's language, emptiness of L(r) minus 'contains shortcut' is not decided",
			"URLs are shorter than the 4 KiB cap",
		},
		Setup: func(env *core.Env) { c05LoadReal(env) },
		Cases: func(t core.Tier) int { return sizes[t] },
		Run: func(c *core.Ctx, idx int) {
			w := walks[c.Env.Tier]
			nReal := len(c05RealRegexRules)
			switch {
			case idx < nReal:
				c.Event("real_list_regex_rules", 1)
				c05CheckRule(c, c05RealRegexRules[idx], w*4, false)
			case idx%7 == 1:
				// Twin rules whose whole texts collide under FastHash (a table or
				// memo keyed by that hash must not mix them up), created one
				// after the other in this process.
				pre := []string{`/\/img\/banner_a`, `/\/ads\/topaz-b`, `/track(er|ing)_x`, "||cdn-a", "|https://static.ads-"}[c.Rng.Intn(5)]
				suf := ".example.com^"
				if pre[0] == '/' {
					suf = []string{`\.gif/`, `[0-9]+\.js/`, `anner\.gif/`}[c.Rng.Intn(3)]
				}
				groups := gen.CollidingTails(pre)
				if len(groups) == 0 {
					return
				}
				g := groups[c.Rng.Intn(len(groups))]
				for _, t := range util.Shuffle(c.Rng, g) {
					c05CheckRule(c, pre+t+suf, w, true)
				}
				c.Event("hash_colliding_twin_groups", 1)
			case idx%3 == 0:
				s, _ := gen.RandomMaskSpec(c.Rng, gen.ModKinds{MatchCase: true}, 0.3)
				s.Exception = false
				text := s.Render(c.Rng)
				c05CheckRule(c, text, w, !s.HasRestriction() && len(s.Pattern) >= 3)
			default:
				c05CheckRule(c, c05RegexGrammar(c.Rng), w, true)
			}
		},
	})
}
