package props

import (
	"bytes"
	"fmt"
	"io"
	"log"
	"log/slog"
	"math"
	"os"
	"path/filepath"
	"strconv"
	"strings"
	"time"

	"github.com/AdguardTeam/urlfilter"
	"github.com/AdguardTeam/urlfilter/filterlist"
	"github.com/AdguardTeam/urlfilter/rules"

	"verifharness/internal/core"
	"verifharness/internal/gen"
	"verifharness/internal/mon"
	"verifharness/internal/ref"
	"verifharness/internal/util"
)

// C19: unreadable rule lists degrade results to a subset, never crash or lie.

var c19FaultKinds = []string{"storage-close", "closed-descriptor", "directory-descriptor", "pipe-descriptor", "closed-descriptor-of-another-file", "storage-close-then-other-files-opened"}

type c19Target struct {
	kind    string // "dns" or "network"
	storage *filterlist.RuleStorage
	list    *filterlist.FileRuleList
	dns     *urlfilter.DNSEngine
	net     *urlfilter.NetworkEngine
	texts   map[int64]string // storage index -> rule text
	later   []*os.File       // files opened after the fault, closed at the end
}

// release closes what the fault injection left open.
func (t *c19Target) release() {
	for _, f := range t.later {
		_ = f.Close()
	}
	t.later = nil
}

// c19ListID is the id of the file-backed list of the current case.
var c19ListID = 1

func c19Build(kind, file string) (*c19Target, error) {
	fl, err := filterlist.NewFileRuleList(c19ListID, file, true)
	if err != nil {
		return nil, err
	}
	s, err := filterlist.NewRuleStorage([]filterlist.RuleList{fl})
	if err != nil {
		return nil, err
	}
	t := &c19Target{kind: kind, storage: s, list: fl, texts: map[int64]string{}}
	if kind == "dns" {
		t.dns = urlfilter.NewDNSEngine(s)
	} else {
		t.net = urlfilter.NewNetworkEngine(s)
	}
	sc := s.NewRuleStorageScanner()
	for sc.Scan() {
		r, idx := sc.Rule()
		t.texts[idx] = r.Text()
	}

	return t, nil
}

// c19Answer is what one query returned.
type c19Answer struct {
	Net     []*rules.NetworkRule
	Basic   *rules.NetworkRule
	V4, V6  []*rules.HostRule
	Matched bool
}

func (t *c19Target) query(q *gen.Req) (a c19Answer) {
	if t.kind == "dns" {
		res, m := t.dns.MatchRequest(&urlfilter.DNSRequest{Hostname: q.Host, DNSType: q.DNSType, ClientName: q.ClientName, ClientIP: q.ClientIP, SortedClientTags: q.Tags})
		a.Net, a.Basic, a.V4, a.V6, a.Matched = res.NetworkRules, res.NetworkRule, res.HostRulesV4, res.HostRulesV6, m

		return a
	}
	a.Net = t.net.MatchAll(q.Build())

	return a
}

func c19Inject(t *c19Target, kind string, dir string) error {
	switch kind {
	case "storage-close":
		return t.storage.Close()
	case "closed-descriptor":
		f, err := os.Open(filepath.Join(dir, "list.txt"))
		if err != nil {
			return err
		}
		_ = f.Close()
		old := t.list.File
		t.list.File = f
		_ = old.Close()
	case "storage-close-then-other-files-opened":
		// After the list is closed the process opens other files, which get the
		// descriptor numbers the list's file had; they hold other matching rules
		// at the same offsets and stay open.
		err := t.storage.Close()
		for i := 0; i < 4; i++ {
			if f, oerr := os.Open(filepath.Join(dir, "decoy.txt")); oerr == nil {
				t.later = append(t.later, f)
			}
		}

		return err
	case "closed-descriptor-of-another-file":
		// The closed handle carries the name of a file with other rules at the
		// same offsets; nothing of it may ever be served.
		f, err := os.Open(filepath.Join(dir, "decoy.txt"))
		if err != nil {
			return err
		}
		_ = f.Close()
		old := t.list.File
		t.list.File = f
		_ = old.Close()
	case "pipe-descriptor":
		// Seek fails with ESPIPE, the descriptor itself is open.
		r, w, err := os.Pipe()
		if err != nil {
			return err
		}
		_ = w.Close()
		old := t.list.File
		t.list.File = r
		_ = old.Close()
	case "directory-descriptor":
		f, err := os.Open(dir)
		if err != nil {
			return err
		}
		old := t.list.File
		t.list.File = f
		_ = old.Close()
	}

	return nil
}

// c19Decoy returns content of the same length and line structure in which
// every line is another rule that matches whatever the original matched: hosts
// lines keep their names with another address, all other lines of three bytes
// or more become the match-everything pattern "***...".
func c19Decoy(content []byte) []byte {
	out := make([]byte, 0, len(content))
	for len(content) > 0 {
		line := content
		rest := []byte(nil)
		if i := bytes.IndexByte(content, '\n'); i >= 0 {
			line, rest = content[:i+1], content[i+1:]
		}
		body := bytes.TrimRight(line, "\r\n")
		eol := line[len(body):]
		switch {
		case len(body) > 8 && body[0] >= '0' && body[0] <= '9' && bytes.ContainsAny(body, " \t"):
			d := append([]byte(nil), body...)
			if d[0] == '1' {
				d[0] = '2'
			} else {
				d[0] = '1'
			}
			out = append(out, d...)
		case len(body) >= 3:
			out = append(out, bytes.Repeat([]byte("*"), len(body))...)
		default:
			out = append(out, bytes.Repeat([]byte(" "), len(body))...)
		}
		out = append(out, eol...)
		content = rest
	}

	return out
}

type c19Witness struct {
	Engine    string     `json:"engine"`
	Fault     string     `json:"fault"`
	FaultAt   int        `json:"fault_before_query"`
	List      []string   `json:"list"`
	History   []*gen.Req `json:"history"`
	Query     int        `json:"query_index"`
	Problem   string     `json:"problem"`
	Got       []string   `json:"got,omitempty"`
	Reference []string   `json:"fault_free_reference,omitempty"`
}

func c19HostSet(hs []*rules.HostRule) []string {
	var out []string
	for _, h := range hs {
		out = append(out, h.RuleText)
	}

	return util.SortedSet(out)
}

// c19Big materialises a very large number of rules before the fault (more than
// any plausible bound of a cache: 9 000 in the quick tier, 70 000 in the
// thorough one) and demands every one of them afterwards.
func c19Big(c *core.Ctx, n int) {
	dir, err := os.MkdirTemp(filepath.Join(c.Env.VerifDir, ".work"), "c19b.")
	if err != nil {
		c.Inconclusive("cannot create scratch directory")

		return
	}
	defer os.RemoveAll(dir)
	var sb strings.Builder
	for i := 0; i < n; i++ {
		fmt.Fprintf(&sb, "||h%d.big.example^\n", i)
	}
	file := filepath.Join(dir, "list.txt")
	if os.WriteFile(file, []byte(sb.String()), 0o644) != nil || os.WriteFile(filepath.Join(dir, "decoy.txt"), c19Decoy([]byte(sb.String())), 0o644) != nil {
		c.Inconclusive("cannot write scratch file")

		return
	}
	for _, fault := range c19FaultKinds {
		t, berr := c19Build("network", file)
		if berr != nil {
			c.Inconclusive("cannot build file-backed engine")

			return
		}
		w := map[string]any{"rules": n, "fault": fault, "list": "||h<i>.big.example^ for i in 0.." + strconv.Itoa(n-1)}
		ask := func(i int) bool {
			rs := t.net.MatchAll(rules.NewRequest("http://h"+strconv.Itoa(i)+".big.example/", "", rules.TypeOther))

			return len(rs) == 1 && rs[0].RuleText == "||h"+strconv.Itoa(i)+".big.example^"
		}
		ok := true
		for i := 0; i < n && ok; i++ {
			ok = ask(i)
		}
		c.Eval(1)
		if !ok {
			c.Violation("big-list-fault-free", nil, w, "fault-free queries over %d rules are not all answered", n)
			_ = t.storage.Close()

			continue
		}
		if t.storage.GetCacheSize() != n {
			// Not a violation by itself (the statement is about what is served
			// after the fault), but worth seeing in the evidence.
			c.Event("big_list_cache_smaller_than_materialised", 1)
		}
		if c.Guard("fault-injection", nil, w, func() { _ = c19Inject(t, fault, dir) }) {
			continue
		}
		lost := 0
		first := -1
		if !c.Guard("query-after-fault", nil, w, func() {
			for i := 0; i < n; i++ {
				if !ask(i) {
					lost++
					if first < 0 {
						first = i
					}
				}
			}
		}) && lost > 0 {
			c.Violation("materialised-rule-lost:"+fault, nil, w, "%d of %d rules retrieved before the fault (%s) are no longer returned, first ||h%d.big.example^", lost, n, fault, first)
		}
		c.Eval(1)
		c.Event("big_list_rules_demanded_after_fault", int64(n))
		_ = t.storage.Close()
		t.release()
	}
	c.NonTrivial(core.Hash64("big", strconv.Itoa(n)))
}

// c19Logger installs one of the logger configurations an application may
// run with (the library reports failed reads through the default logger of
// log/slog) and returns a function that restores the previous one.
func c19Logger(c *core.Ctx) (restore func()) {
	k := c.Rng.Intn(4)
	if k == 0 {
		return func() {}
	}
	prev := slog.Default()
	var h slog.Handler
	switch k {
	case 1:
		h = slog.NewTextHandler(io.Discard, &slog.HandlerOptions{Level: slog.LevelDebug})
	case 2:
		h = slog.NewJSONHandler(io.Discard, &slog.HandlerOptions{Level: slog.LevelDebug, AddSource: true})
	default:
		h = slog.NewTextHandler(io.Discard, &slog.HandlerOptions{Level: slog.LevelError + 4})
	}
	slog.SetDefault(slog.New(h))
	c.Event("cases_with_logger_"+[]string{"", "text_debug", "json_debug_with_source", "above_error"}[k], 1)

	return func() {
		slog.SetDefault(prev)
		log.SetOutput(os.Stderr)
	}
}

func c19Run(c *core.Ctx, idx int) {
	defer c19Logger(c)()
	if idx == 1 {
		c19Big(c, map[core.Tier]int{core.Quick: 9000, core.Thorough: 70000}[c.Env.Tier])

		return
	}
	kind := []string{"dns", "network"}[idx%2]
	c19ListID = []int{1, 0, -1, -3, 7, 1 << 20, math.MinInt32 + 1, math.MaxInt32}[c.Rng.Intn(8)]
	var lines []string
	if kind == "dns" {
		l := c02MakeList(c)
		lines = l.lines
	} else {
		lines, _ = c01Pool(c, 60)
	}
	content := util.Lines(lines)
	dir, err := os.MkdirTemp(filepath.Join(c.Env.VerifDir, ".work"), "c19f.")
	if err != nil {
		c.Inconclusive("cannot create scratch directory")

		return
	}
	defer os.RemoveAll(dir)
	file := filepath.Join(dir, "list.txt")
	if err = os.WriteFile(file, []byte(content), 0o644); err != nil {
		c.Inconclusive("cannot write scratch file")

		return
	}

	// History with repeats.
	n := 10 + c.Rng.Intn(20)
	if c.Env.Tier == core.Thorough {
		n = 10 + c.Rng.Intn(50)
	}
	var pool []*gen.Req
	for i := 0; i < 8; i++ {
		if kind == "dns" {
			q := gen.RandomReq(c.Rng, 1)
			q.Host = append(c02Hosts, gen.HostGroups[0]...)[c.Rng.Intn(len(c02Hosts)+2)]
			pool = append(pool, q)
		} else {
			pool = append(pool, c01Requests(c, lines, nil, 1)[0])
		}
	}
	hist := make([]*gen.Req, n)
	for i := range hist {
		hist[i] = pool[c.Rng.Intn(len(pool))]
	}

	// A rule that lives in two buckets, with another rule of the second bucket
	// before it in the file: asking through the first bucket materialises it,
	// and after the fault the second bucket holds [unread, materialised].
	if c.Rng.Intn(2) == 0 && len(pool) >= 2 {
		qa, qb := pool[0], pool[1]
		if kind == "dns" && qa.Host != qb.Host && !strings.Contains(qa.Host+qb.Host, ":") {
			lines = append([]string{"0.0.0.0 " + qb.Host, "0.0.0.1 " + qa.Host + " " + qb.Host}, lines...)
			hist[0], hist[len(hist)-1] = qa, qb
			c.Event("lists_with_rule_in_two_buckets", 1)
		} else if kind != "dns" {
			sa, sb := "d-one.example", "d-two.example"
			a := &gen.Req{URL: "http://x.example/zz/1", Source: "http://" + sa + "/", Type: rules.TypeScript}
			b := &gen.Req{URL: "http://x.example/zz/2", Source: "http://" + sb + "/", Type: rules.TypeScript}
			lines = append([]string{"/zz/$domain=" + sb, "/zz/$script,domain=" + sa + "|" + sb}, lines...)
			pool = append(pool, a, b)
			hist[0], hist[len(hist)-1] = a, b
			c.Event("lists_with_rule_in_two_buckets", 1)
		}
		content = util.Lines(lines)
		if werr := os.WriteFile(file, []byte(content), 0o644); werr != nil {
			c.Inconclusive("cannot write scratch file")

			return
		}
	}

	// Half of the cases: the list is longer than the 4 KiB read block and a
	// rule straddles a block boundary exactly where cutting it leaves a valid,
	// broader rule (the part before '$', before ',' or before '|') that matches
	// a request of the history although the whole rule does not.
	if c.Rng.Intn(2) == 0 {
		q := pool[c.Rng.Intn(len(pool))]
		h := q.Host
		if !q.HostnameReq {
			h = ref.HostOf(q.URL)
		}
		if h != "" && !strings.ContainsAny(h, ":") {
			var full string
			var cut int
			switch c.Rng.Intn(3) {
			case 0:
				full = "||" + h + "^$client=NoSuchClientAnywhere"
				if kind != "dns" {
					full = "||" + h + "^$domain=nomatch-zz.example"
				}
				cut = strings.IndexByte(full, '$')
			case 1:
				full = "||" + h + "^$important,client=NoSuchClientAnywhere"
				if kind != "dns" {
					full = "||" + h + "^$important,domain=nomatch-zz.example"
				}
				cut = strings.IndexByte(full, ',')
			default:
				full = "||" + h + "^$ctag=~nosuchtag|device_zz"
				if kind != "dns" {
					full = "||" + h + "^$domain=~nomatch-zz.example|other-zz.example"
				}
				cut = strings.LastIndexByte(full, '|')
			}
			at := c.Rng.Intn(len(lines) + 1)
			pre := util.Lines(lines[:at])
			target := 4096
			for len(pre)+cut+3 > target {
				target += 4096
			}
			target += []int{0, 0, 0, -1, 1}[c.Rng.Intn(5)]
			padLen := target - cut - len(pre)
			pad := "! " + strings.Repeat("-", padLen-3)
			nl := append(append(append([]string(nil), lines[:at]...), pad, full), lines[at:]...)
			lines = nl
			content = util.Lines(lines)
			if werr := os.WriteFile(file, []byte(content), 0o644); werr != nil {
				c.Inconclusive("cannot write scratch file")

				return
			}
			// Make sure the history asks for it.
			hist[c.Rng.Intn(len(hist))] = q
			c.Event("lists_with_rule_straddling_a_block_boundary", 1)
		}
	}

	// Fault-free oracle from a String-backed twin over the same bytes.
	var oracleNet [][]string
	var oracleV4, oracleV6 [][]string
	{
		s := util.Storage(content)
		var od *urlfilter.DNSEngine
		var on *urlfilter.NetworkEngine
		if kind == "dns" {
			od = urlfilter.NewDNSEngine(s)
		} else {
			on = urlfilter.NewNetworkEngine(s)
		}
		for _, q := range hist {
			if kind == "dns" {
				res, _ := od.MatchRequest(&urlfilter.DNSRequest{Hostname: q.Host, DNSType: q.DNSType, ClientName: q.ClientName, ClientIP: q.ClientIP, SortedClientTags: q.Tags})
				oracleNet = append(oracleNet, util.SortedSet(util.Texts(res.NetworkRules)))
				// Host rules are only consulted without a basic rule; the full
				// set of entries naming the host is the upper bound.
				var v4, v6 []string
				for _, ln := range lines {
					r, perr := rules.NewRule(ln, 1)
					if hr, ok := r.(*rules.HostRule); ok && perr == nil && hr.Match(q.Host) {
						if hr.IP.Is4() {
							v4 = append(v4, hr.RuleText)
						} else {
							v6 = append(v6, hr.RuleText)
						}
					}
				}
				oracleV4, oracleV6 = append(oracleV4, util.SortedSet(v4)), append(oracleV6, util.SortedSet(v6))
			} else {
				oracleNet = append(oracleNet, util.SortedSet(util.Texts(on.MatchAll(q.Build()))))
			}
		}
	}

	if b, rerr := os.ReadFile(file); rerr != nil || os.WriteFile(filepath.Join(dir, "decoy.txt"), c19Decoy(b), 0o644) != nil {
		c.Inconclusive("cannot write the decoy file")

		return
	}
	// Two cases let real time pass between opening the list and the fault (a
	// list that re-checks its file every few seconds, or every minute, behaves
	// differently only then): one fault point per fault kind, after a pause.
	var pause time.Duration
	switch {
	case idx == 2 || idx == 3:
		pause = 5500 * time.Millisecond
	case idx == 4 && c.Env.Tier == core.Thorough:
		pause = 61 * time.Second
	}
	for _, fault := range c19FaultKinds {
		kSlow := -1
		if pause > 0 {
			kSlow = c.Rng.Intn(n + 1)
		}
		for k := 0; k <= n; k++ {
			if pause > 0 && k != kSlow {
				continue
			}
			t, berr := c19Build(kind, file)
			if berr != nil {
				c.Inconclusive("cannot build file-backed engine")

				return
			}
			materialised := map[int64]bool{}
			mon.SetExtra(func(name string, key int64) {
				if name == "storage.insert" {
					materialised[key] = true
				}
			})
			w := c19Witness{Engine: kind, Fault: fault, FaultAt: k, List: lines, History: hist}
			faulted := false
			seenNet, seenV4, seenV6 := map[string][]string{}, map[string][]string{}, map[string][]string{}
			for i, q := range hist {
				if i == k {
					if k > 0 && c.Rng.Intn(3) == 0 {
						// Before the fault the storage is scanned once more (a
						// second engine is built on it, as applications with a
						// DNS and a web engine do): what the first engine has
						// materialised stays materialised.
						c.Guard("second-engine-on-the-same-storage", nil, w, func() {
							if kind == "dns" {
								_ = urlfilter.NewNetworkEngine(t.storage)
							} else {
								_ = urlfilter.NewDNSEngine(t.storage)
							}
						})
						c.Event("fault_points_after_a_second_scan_of_the_storage", 1)
					}
					if pause > 0 {
						time.Sleep(pause)
						c.Event("fault_points_after_a_pause_of_seconds", 1)
					}
					if ierr := c19Inject(t, fault, dir); ierr != nil && !strings.HasPrefix(fault, "storage-close") {
						c.Inconclusive("fault injection failed")
					}
					faulted = true
				}
				var a c19Answer
				w.Query = i
				if c.Guard("query-after-fault", nil, w, func() { a = t.query(q) }) {
					break
				}
				c.Eval(1)
				got := util.SortedSet(util.Texts(a.Net))
				report := func(sig, problem string, g, r []string) {
					w2 := w
					w2.Problem, w2.Got, w2.Reference = problem, g, r
					c.Violation(sig+":"+fault, nil, w2, "%s engine, fault %s before query %d, query %d (%s): %s\n got %q\n fault-free %q", kind, fault, k, i, c01Short(q), problem, g, r)
				}
				if !faulted {
					if !util.EqualStrings(got, oracleNet[i]) {
						report("fault-free-answer-differs", "answer before the fault differs from the String-backed twin", got, oracleNet[i])
					}
					// What this query was answered with before the fault (observed
					// at the interface, not through the hooks).
					seenNet[q.Key()] = got
					if kind == "dns" {
						seenV4[q.Key()], seenV6[q.Key()] = c19HostSet(a.V4), c19HostSet(a.V6)
					}

					continue
				}
				c.Event("queries_after_fault", 1)
				// Lower bound at the interface: a query that was answered before
				// the fault is answered from the same places again, and every rule
				// it was answered with then has been retrieved, so all of them
				// are still returned.
				if prev, asked := seenNet[q.Key()]; asked {
					c.Event("queries_repeated_after_the_fault", 1)
					if lost := util.Diff(prev, got); len(lost) > 0 {
						report("rule-returned-before-the-fault-lost", "rules this very query returned before the fault are no longer returned", got, prev)
					}
					if kind == "dns" {
						g4, g6 := c19HostSet(a.V4), c19HostSet(a.V6)
						// (host rules are consulted only when no basic rule is found,
						// which does not change: the network rules are all still there)
						if lost := append(util.Diff(seenV4[q.Key()], g4), util.Diff(seenV6[q.Key()], g6)...); len(lost) > 0 {
							report("host-rule-returned-before-the-fault-lost", "host rules this very query returned before the fault are no longer returned", append(g4, g6...), append(append([]string(nil), seenV4[q.Key()]...), seenV6[q.Key()]...))
						}
					}
				}
				// Upper bound: a subset of the fault-free result, each returned
				// rule truly matches.
				if extra := util.Diff(got, oracleNet[i]); len(extra) > 0 {
					report("not-a-subset", "returned rules that the fault-free engine does not return", got, oracleNet[i])
				}
				req := q.Build()
				for _, r := range a.Net {
					if r == nil || !r.Match(req) {
						report("returned-rule-does-not-match", "a returned rule does not match the request (or is nil)", got, oracleNet[i])

						break
					}
				}
				// Lower bound: materialised rules are still served.
				var must []string
				for mi := range materialised {
					txt := t.texts[mi]
					for _, o := range oracleNet[i] {
						if o == txt {
							must = append(must, txt)
						}
					}
				}
				if lost := util.Diff(util.SortedSet(must), got); len(lost) > 0 {
					report("materialised-rule-lost", "rules retrieved before the fault are no longer returned", got, util.SortedSet(must))
				}
				if len(must) > 0 {
					c.Event("queries_served_from_materialised_rules", 1)
				}
				if len(got) < len(oracleNet[i]) {
					c.Event("queries_degraded_to_proper_subset", 1)
				}
				if kind == "dns" {
					g4, g6 := c19HostSet(a.V4), c19HostSet(a.V6)
					if len(util.Diff(g4, oracleV4[i]))+len(util.Diff(g6, oracleV6[i])) > 0 {
						report("host-rules-not-a-subset", "returned host rules that do not name the host or are in the wrong family", append(g4, g6...), append(oracleV4[i], oracleV6[i]...))
					}
					if a.Basic != nil {
						found := false
						for _, r := range a.Net {
							found = found || r == a.Basic
						}
						if !found || a.Basic.DNSRewrite != nil || a.Basic.IsOptionEnabled(rules.OptionBadfilter) {
							report("basic-rule-not-among-returned", "the basic rule is not one of the returned matching rules", []string{a.Basic.RuleText}, got)
						}
					}
					if a.Matched != (a.Basic != nil || len(a.V4)+len(a.V6) > 0) {
						report("matched-flag", "matched flag disagrees with the returned rules", []string{boolStr(a.Matched)}, nil)
					}
				}
			}
			mon.SetExtra(nil)
			if t.storage.GetCacheSize() < len(materialised) {
				c.Violation("cache-shrunk:"+fault, nil, w, "cache holds %d rules although %d were inserted", t.storage.GetCacheSize(), len(materialised))
			}
			_ = t.storage.Close()
			t.release()
			c.Event("fault_points", 1)
		}
	}
	c.NonTrivial(core.Hash64(append([]string{kind, fmt.Sprint(n)}, lines...)...))
	if c.WantSample() && c.Rng.Intn(10) == 0 {
		c.Sample(map[string]any{"engine": kind, "rules": len(lines), "history_length": n, "fault_points": (n + 1) * len(c19FaultKinds), "first_queries": []string{c01Short(hist[0]), c01Short(hist[1])}})
	}
	_ = strings.Join
}

func init() {
	sizes := map[core.Tier]int{core.Quick: 240, core.Thorough: 16000}
	core.Register(&core.Prop{
		ID:    "C19",
		Level: "fault_enumeration",
		Rule: "per case one file-backed list (DNS: rules + hosts lines over colliding names; network: a pool mixing all index paths) and one query history of 10..30 (thorough 10..60) queries drawn with repeats from 8 distinct requests; in half of the cases the list is padded beyond the 4 KiB read block so that a rule straddles a block boundary exactly where its prefix is a valid broader rule matching a request of the history; for EVERY fault point k in 0..n and every fault kind in {RuleStorage.Close, file handle replaced by an already closed descriptor, by a directory descriptor (Seek succeeds, reads fail with EISDIR), by the read end of a closed pipe (Seek fails with ESPIPE), by an already closed descriptor of ANOTHER file that holds different matching rules at the same offsets, RuleStorage.Close followed by opening that other file four times (descriptor numbers are recycled)} the engine is rebuilt, queries before k must equal a String-backed twin, queries from k on must not panic, must return a subset of the fault-free result whose members individually match, must still return every rule materialised before k (tracked from storage.insert hook events, cross-checked with GetCacheSize), and a query repeated after the fault must still return every network and host rule it returned before it (observed at the interface); " +
			"each case under one of four logger configurations of log/slog (default, text or JSON at debug level, above error); " +
			"cases 2 and 3 pause 5.5 s (thorough: case 4 pauses 61 s) of real time before one fault point per fault kind; " +
			"plus one case that materialises 9 000 (thorough 70 000) rules before each kind of fault and demands all of them afterwards; non-trivial = every (list, history) pair, each contributing 6*(n+1) fault placements; distinct by list and history length",
		Assumptions: []string{
			"the fault-free oracle is a String-backed twin engine over the same bytes",
			"with only a subset of rules available the selected basic rule may legitimately differ from the fault-free one; only membership and match are required",
			"real EIO injection and Close concurrent with queries are not part of the quick tier",
		},
		Setup: func(env *core.Env) {
			gen.Collisions()
			mon.Install()
		},
		Cases: func(t core.Tier) int { return sizes[t] },
		Run:   c19Run,
	})
}
