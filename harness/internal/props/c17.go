package props

import (
	"fmt"
	"net/netip"
	"net/url"
	"strings"

	"github.com/AdguardTeam/urlfilter/filterutil"
	"github.com/AdguardTeam/urlfilter/rules"
	"golang.org/x/net/publicsuffix"

	"verifharness/internal/core"
	"verifharness/internal/gen"
)

// C17: request fields agree with net/url and the Public Suffix List.

var c17Hosts []string

// c17Systematic is the number of hand-picked hosts (PSL classes and the
// hostile vocabulary) that get the systematic treatment; they are the first
// entries of c17Hosts.
var c17Systematic int

func c17Setup(env *core.Env) {
	c17Hosts = append(c17Hosts, gen.PSLHosts()...)
	c17Hosts = append(c17Hosts, gen.Hosts...)
	c17Hosts = append(c17Hosts, "1.2.3.4", "255.255.255.255", "0.0.0.0", "localhost", "a", "a-b.c-d.com", "xn--80ak6aa92e.com", "1.com", "a.b.c.d.e.f.g.com")
	c17Systematic = len(c17Hosts)
	corp := gen.LoadCorpus(env.RepoDir)
	c17Hosts = append(c17Hosts, corp.Hosts...)
}

var c17V6Hosts = []string{"::1", "::", "2001:db8::1", "fe80::1", "::ffff:192.168.1.10", "2001:db8:0:0:0:0:0:1", "2a00:1450:4001:81b::200e", "64:ff9b::1.2.3.4"}

func c17RegDomain(host string) string {
	if host == "" {
		return ""
	}
	d, err := publicsuffix.EffectiveTLDPlusOne(host)
	if err != nil {
		return host
	}

	return d
}

func c17Host(c *core.Ctx) string {
	h := c17Hosts[c.Rng.Intn(len(c17Hosts))]
	// Bias towards the hand-picked PSL classes.
	if c.Rng.Intn(2) == 0 {
		h = c17Hosts[c.Rng.Intn(400)]
	}

	return h
}

var c17Paths = []string{
	"", "/", "/path", "/a//b", "/a:b", "/a@b", "/a?b", "/http://evil.com/", "/p.js", "/?x=1", "//", "/a/b/c.png",
	"/:80", "/@", "/%20x", "/a;b=c", "/~user", "/a,b", "/a|b",
	// ASCII capitals followed by non-ASCII capitals, by letters whose lower case
	// has another byte length, and by bytes that are not UTF-8.
	"/Wiki/Ärzte", "/A/ПРИВЕТ/b", "/X\xff\xfeY", "/Ünï/ÇA", "/İstanbul/I", "/K\u212aelvin", "/SS/\u1e9e",
}

var c17Queries = []string{"", "?", "?a=b", "?u=http://x.com/", "?@", "?:", "?a=b&c=d", "?//", "?a?b", "?q=a/b", "?x=%41", "?Q=ÖSTERREICH", "?A=\xc3", "?Stadt=Zürich&Land=ÖSTERREICH"}

var c17Ports = []string{"", "", "", ":80", ":8080", ":443", ":", ":0", ":65535"}

func c17URL(c *core.Ctx, host string) string {
	var sb strings.Builder
	if c.Rng.Intn(40) == 0 {
		// A host name of the maximum legal length, or one byte less.
		host = []string{gen.Host253, gen.Host252, "www." + gen.Host253[4:]}[c.Rng.Intn(3)]
	}
	scheme := gen.Schemes[c.Rng.Intn(len(gen.Schemes))]
	if c.Rng.Intn(8) == 0 {
		// Every scheme of RFC 3986: letters, digits, '+', '-', '.'.
		scheme = []string{"s3", "h2", "ed2k", "web3", "z39.50s", "coap+tcp", "svn+ssh", "a", "x-y.z", "chrome-extension"}[c.Rng.Intn(10)]
	}
	if c.Rng.Intn(12) == 0 {
		scheme = strings.ToUpper(scheme)
	}
	sb.WriteString(scheme)
	sb.WriteString("://")
	if c.Rng.Intn(6) == 0 {
		// mixed case
		b := []byte(host)
		for i := range b {
			if c.Rng.Intn(3) == 0 && b[i] >= 'a' && b[i] <= 'z' {
				b[i] -= 32
			}
		}
		host = string(b)
	}
	sb.WriteString(host)
	port := c17Ports[c.Rng.Intn(len(c17Ports))]
	sb.WriteString(port)
	// (after an explicit port the fragment does not follow the host directly)
	tail := port != ""
	switch c.Rng.Intn(4) {
	case 0:
	case 1:
		sb.WriteString(c17Queries[1+c.Rng.Intn(len(c17Queries)-1)])
		tail = true
	default:
		p := c17Paths[1+c.Rng.Intn(len(c17Paths)-1)]
		sb.WriteString(p)
		sb.WriteString(c17Queries[c.Rng.Intn(len(c17Queries))])
		tail = true
	}
	// A fragment directly after the host is outside the contract.
	if tail && c.Rng.Intn(4) == 0 {
		sb.WriteString([]string{"#", "#frag", "#/a?b", "#@x"}[c.Rng.Intn(4)])
	}
	if c.Rng.Intn(200) == 0 {
		// Longer than the cap.
		sb.WriteString("/" + strings.Repeat("Ab1/", 1100))
	}

	return sb.String()
}

type c17Witness struct {
	URL    string `json:"url,omitempty"`
	Source string `json:"source,omitempty"`
	Host   string `json:"hostname,omitempty"`
	Field  string `json:"field"`
	Got    string `json:"got"`
	Want   string `json:"want"`
}

func c17Capped(s string) string {
	if len(s) > 4096 {
		return s[:4096]
	}

	return s
}

func c17StdHost(raw string) (string, bool) {
	if raw == "" {
		return "", true
	}
	u, err := url.Parse(raw)
	if err != nil {
		return "", false
	}

	return u.Hostname(), true
}

func c17CheckRequest(c *core.Ctx, raw, src string) {
	capURL, capSrc := c17Capped(raw), c17Capped(src)
	wantHost, ok1 := c17StdHost(capURL)
	wantSrcHost, ok2 := c17StdHost(capSrc)
	if !ok1 || !ok2 {
		c.Inconclusive("net/url rejects the URL")

		return
	}
	if src != "" && c.Rng.Intn(4) == 0 {
		// Another request comes first (a page load: a document request for a
		// bare origin that is textually close to the source of the request
		// under test - the same origin, the host without its last label or
		// without its last character): every request is parsed on its own.
		if i := strings.Index(src, "://"); i > 0 && wantSrcHost != "" {
			origin := src[:i+3] + wantSrcHost
			prime := origin
			switch c.Rng.Intn(3) {
			case 0:
				if j := strings.LastIndexByte(wantSrcHost, '.'); j > 0 {
					prime = src[:i+3] + wantSrcHost[:j]
				}
			case 1:
				prime = origin[:len(origin)-1]
			}
			c.Guard("NewRequest(earlier document request)", nil, c17Witness{URL: prime}, func() { _ = rules.NewRequest(prime, "", rules.TypeDocument) })
			c.Event("requests_preceded_by_a_document_request", 1)
		}
	}
	var r *rules.Request
	// (the fields under test do not depend on the content type of the request)
	rt := rules.RequestType(1) << c.Rng.Intn(12)
	if c.Guard("NewRequest", nil, c17Witness{URL: raw, Source: src}, func() { r = rules.NewRequest(raw, src, rt) }) {
		return
	}
	if rt == rules.TypeDocument && src != "" {
		c.Event("document_requests_with_a_source", 1)
	}
	c.Eval(1)
	bad := func(field, got, want string) {
		c.Violation("field-mismatch:"+field, nil, c17Witness{URL: raw, Source: src, Field: field, Got: got, Want: want},
			"NewRequest(%q, %q).%s = %q, reference %q", raw, src, field, got, want)
	}
	wantDomain, wantSrcDomain := c17RegDomain(wantHost), c17RegDomain(wantSrcHost)
	wantTP := wantSrcHost != "" && wantSrcDomain != wantDomain
	switch {
	case r.URL != capURL:
		bad("URL", r.URL, capURL)
	case r.URLLowerCase != strings.ToLower(capURL):
		bad("URLLowerCase", r.URLLowerCase, strings.ToLower(capURL))
	case r.Hostname != wantHost:
		bad("Hostname", r.Hostname, wantHost)
	case r.SourceHostname != wantSrcHost:
		bad("SourceHostname", r.SourceHostname, wantSrcHost)
	case r.Domain != wantDomain:
		bad("Domain", r.Domain, wantDomain)
	case r.SourceDomain != wantSrcDomain:
		bad("SourceDomain", r.SourceDomain, wantSrcDomain)
	case r.ThirdParty != wantTP:
		bad("ThirdParty", boolStr(r.ThirdParty), boolStr(wantTP))
	case r.SourceURL != capSrc:
		bad("SourceURL", r.SourceURL, capSrc)
	case r.IsHostnameRequest:
		bad("IsHostnameRequest", "true", "false")
	case r.RequestType != rt:
		bad("RequestType", fmt.Sprint(r.RequestType), fmt.Sprint(rt))
	case filterutil.ExtractHostname(capURL) != wantHost:
		bad("ExtractHostname", filterutil.ExtractHostname(capURL), wantHost)
	}
	if src != "" {
		// Symmetry of third-party.
		r2 := rules.NewRequest(src, raw, rules.RequestType(1)<<c.Rng.Intn(12))
		c.Eval(1)
		if r2.ThirdParty != r.ThirdParty {
			bad("ThirdParty-symmetry", boolStr(r2.ThirdParty), boolStr(r.ThirdParty))
		}
	}
	if wantHost != wantDomain || wantTP {
		c.NonTrivial(core.Hash64(raw, src))
	}
	if wantTP {
		c.Event("third_party", 1)
	} else if src != "" {
		c.Event("first_party", 1)
	}
	if wantHost != "" && wantDomain == wantHost {
		c.Event("host_is_its_own_domain", 1)
	}
}

func boolStr(b bool) string {
	if b {
		return "true"
	}

	return "false"
}

// c17Dirty is a request object that is filled again and again, the way the DNS
// engine reuses pooled request objects.
var c17Dirty = rules.NewRequest("https://Other.Example.NET/some/path?x=1", "https://source.example.org/", rules.TypeScript)

func c17CheckHostname(c *core.Ctx, h string) {
	var r *rules.Request
	if c.Guard("NewRequestForHostname", nil, c17Witness{Host: h}, func() { r = rules.NewRequestForHostname(h) }) {
		return
	}
	c17JudgeHostname(c, "NewRequestForHostname", h, r)
	// The other public way to the same request: fill an object that has been
	// used for something else before.
	if c.Rng.Intn(4) == 0 {
		*c17Dirty = *rules.NewRequest("https://Other.Example.NET/some/path?x=1", "https://source.example.org/", rules.TypeScript)
		c17Dirty.ClientIP = netip.MustParseAddr("10.1.2.3")
		c17Dirty.ClientName = "laptop"
	}
	if c.Guard("FillRequestForHostname", nil, c17Witness{Host: h}, func() { rules.FillRequestForHostname(c17Dirty, h) }) {
		return
	}
	c17JudgeHostname(c, "FillRequestForHostname(reused object)", h, c17Dirty)
}

func c17JudgeHostname(c *core.Ctx, via, h string, r *rules.Request) {
	c.Eval(1)
	bad := func(field, got, want string) {
		c.Violation("hostname-request-mismatch:"+field, nil, c17Witness{Host: h, Field: field, Got: got, Want: want},
			"%s(%q).%s = %q, reference %q", via, h, field, got, want)
	}
	want := c17RegDomain(h)
	switch {
	case r.URL != "http://"+h:
		bad("URL", r.URL, "http://"+h)
	case r.URLLowerCase != strings.ToLower(r.URL):
		bad("URLLowerCase", r.URLLowerCase, strings.ToLower(r.URL))
	case r.Hostname != h:
		bad("Hostname", r.Hostname, h)
	case r.Domain != want:
		bad("Domain", r.Domain, want)
	case r.ThirdParty:
		bad("ThirdParty", "true", "false")
	case !r.IsHostnameRequest:
		bad("IsHostnameRequest", "false", "true")
	case r.RequestType != rules.TypeDocument:
		bad("RequestType", "?", "document")
	}
	if want != h {
		c.NonTrivial(core.Hash64("h", h))
	}
}

func init() {
	sizes := map[core.Tier]int{core.Quick: 30000, core.Thorough: 8000000}
	core.Register(&core.Prop{
		ID:    "C17",
		Level: "exploration",
		Rule: "systematic part: every hand-picked host (8 names around each of 40 public suffixes of every PSL class, the hostile vocabulary, IPv4, single labels) x 3 port forms x 19 paths x 11 queries x with/without fragment x 3 source situations; sampled part: per case 16 URL requests scheme://host[:port] followed by nothing, /path or ?query (paths and queries containing //, :, ?, @), optionally with #fragment (never directly after the host), no userinfo, hosts from every PSL class (ICANN multi-level, wildcard and exception rules, private suffixes, unlisted TLDs, IPv4, single labels) and the 58 k hosts of testdata/hosts, sometimes mixed-case or longer than 4 KiB, with an empty, same-site or foreign source URL; plus 8 NewRequestForHostname calls and the real URLs of testdata/requests.json; " +
			"whole-list part: every one of the 9 105 rules of the Public Suffix List as compiled into x/net (suffix, 1..3 labels below, star and exception instances) as hostname and URL requests and as two sites asking each other; " +
			"every request carries one of the twelve content types (document requests with a source included); " +
			"oracle = net/url + publicsuffix.EffectiveTLDPlusOne, third-party symmetry under swapping; non-trivial = request whose registrable domain differs from its host or that is third-party; distinct by (url, source)",
		Assumptions: []string{
			"URLs that net/url rejects are outside the contract (counted inconclusive)",
			"hostnames for NewRequestForHostname are lower-case and have no empty labels",
		},
		Setup: c17Setup,
		Cases: func(t core.Tier) int { return len(gen.PSLHosts()) + len(gen.Hosts) + 9 + c17PSLBatches() + sizes[t] },
		Run: func(c *core.Ctx, idx int) {
			corp := gen.LoadCorpus(c.Env.RepoDir)
			if idx < c17Systematic {
				// Systematic block: one hand-picked host (every PSL class) x
				// every tail shape x three source situations.
				h := c17Hosts[idx]
				for _, port := range []string{"", ":8080", ":"} {
					for _, p := range c17Paths {
						for _, q := range c17Queries {
							for _, f := range []string{"", "#frag"} {
								if p == "" && q == "" && f != "" && port == "" {
									continue // fragment directly after the host
								}
								u := "https://" + h + port + p + q + f
								c17CheckRequest(c, u, "")
								c17CheckRequest(c, u, "http://static."+h+"/")
								c17CheckRequest(c, u, "http://"+c17Hosts[(idx*31+len(p)+len(q))%c17Systematic]+"/x")
							}
						}
					}
				}
				c17CheckHostname(c, strings.ToLower(h))
				c.Event("systematic_hosts", 1)

				return
			}
			if b := idx - c17Systematic; b < c17PSLBatches() {
				c17WholePSL(c, b)

				return
			}
			for k := 0; k < 16; k++ {
				h := c17Host(c)
				u := c17URL(c, h)
				src := ""
				switch c.Rng.Intn(4) {
				case 0:
				case 1:
					// Same registrable domain, different host.
					src = c17URL(c, "static."+h)
				case 2:
					src = c17URL(c, h)
				default:
					src = c17URL(c, c17Host(c))
				}
				c17CheckRequest(c, u, src)
				if c.WantSample() && k == 0 && c.Rng.Intn(500) == 0 {
					c.Sample(map[string]any{"url": c17Capped(u)[:min(len(u), 200)], "source": c17Capped(src)[:min(len(src), 200)]})
				}
			}
			for k := 0; k < 8; k++ {
				c17CheckHostname(c, strings.ToLower(c17Host(c)))
			}
			// IP literals of the other family are host names of DNS-level
			// requests too (PTR-style look-ups, clients that ask for anything).
			c17CheckHostname(c, c17V6Hosts[c.Rng.Intn(len(c17V6Hosts))])
			c.Event("ipv6_hostname_requests", 1)
			if len(corp.Requests) > 0 {
				r := corp.Requests[(idx*7)%len(corp.Requests)]
				// Only hierarchical URLs are in the contract (about:blank, data: ... are not).
				if !strings.Contains(r.URL, "#") && !strings.Contains(r.FrameURL, "#") && c17Hierarchical(r.URL) && c17Hierarchical(r.FrameURL) {
					c17CheckRequest(c, r.URL, r.FrameURL)
					c.Event("real_requests", 1)
				}
			}
		},
	})
}

const c17PSLBatch = 48

func c17PSLBatches() int {
	return (len(gen.PSLRules()) + c17PSLBatch - 1) / c17PSLBatch
}

// c17WholePSL walks one batch of the rules of the Public Suffix List: for
// every rule the suffix itself and names one, two and three labels below it
// (for a wildcard rule with an arbitrary label in place of the star, for an
// exception rule the excepted name), as hostname requests, as URL requests and
// as two sites under the same suffix asking each other.
func c17WholePSL(c *core.Ctx, b int) {
	all := gen.PSLRules()
	for i := b * c17PSLBatch; i < (b+1)*c17PSLBatch && i < len(all); i++ {
		r := all[i]
		var names []string
		switch {
		case strings.HasPrefix(r, "*."):
			rest := r[2:]
			names = []string{rest, "any." + rest, "a.any." + rest, "b.a.any." + rest, "a.other." + rest}
		case strings.HasPrefix(r, "!"):
			ex := r[1:]
			names = []string{ex, "a." + ex, "b.a." + ex}
		default:
			names = []string{r, "a." + r, "b.a." + r, "c.b.a." + r, "alice." + r, "x.alice." + r}
		}
		for k, h := range names {
			c17CheckHostname(c, h)
			c17CheckRequest(c, "https://"+h+"/p?q=1", "")
			c17CheckRequest(c, "https://"+h+"/", "http://"+names[(k+1)%len(names)]+"/page")
			c17CheckRequest(c, "http://bob."+h+"/x.js", "https://"+names[len(names)-1]+"/")
		}
		c.Event("public_suffix_rules_walked", 1)
	}
}

func c17Hierarchical(u string) bool {
	i := strings.Index(u, "://")
	if i <= 0 {
		return false
	}
	for _, ch := range u[:i] {
		if !(ch >= 'a' && ch <= 'z' || ch >= 'A' && ch <= 'Z' || ch >= '0' && ch <= '9' || ch == '+' || ch == '.' || ch == '-') {
			return false
		}
	}
	rest := u[i+3:]
	if j := strings.IndexAny(rest, "/?#"); j >= 0 {
		rest = rest[:j]
	}

	return rest != "" && !strings.ContainsAny(rest, "@[]")
}
