package props

import (
	"bytes"
	"compress/gzip"
	"context"
	"github.com/AdguardTeam/urlfilter/rules"
	"io"
	"net/http"
	"os"
	"path/filepath"
	"strconv"
	"strings"
	"time"

	"github.com/AdguardTeam/urlfilter/proxy"

	"verifharness/internal/core"
	"verifharness/internal/util"
)

// C20: proxy HTML injection inserts one tag and preserves every original byte.

const c20Window = 16 * 1024

var c20Markers = []string{"</head", "<link", "<style", "<script"}

// c20FirstMarker returns the byte offset of the first marker (ASCII
// case-insensitive) in body, or -1.
func c20FirstMarker(body []byte) int {
	// ASCII-only lower-casing that keeps every offset (bytes.ToLower would
	// re-encode invalid UTF-8).
	low := make([]byte, len(body))
	for i, b := range body {
		if b >= 'A' && b <= 'Z' {
			b += 32
		}
		low[i] = b
	}
	best := -1
	for _, m := range c20Markers {
		if i := bytes.Index(low, []byte(m)); i >= 0 && (best == -1 || i < best) {
			best = i
		}
	}

	return best
}

// c20TranscodedOffset returns the offset of byte position i after Latin-1 to
// UTF-8 transcoding (bytes >= 0x80 take two bytes).
func c20TranscodedOffset(body []byte, i int) int {
	n := i
	for _, b := range body[:i] {
		if b >= 0x80 {
			n++
		}
	}

	return n
}

func c20RandCase(c *core.Ctx, s string) string {
	b := []byte(s)
	for i := range b {
		if c.Rng.Intn(2) == 0 && b[i] >= 'a' && b[i] <= 'z' {
			b[i] -= 32
		}
	}

	return string(b)
}

// c20Filler produces n bytes without any marker or near-marker prefix ('<' is
// never produced).
func c20Filler(c *core.Ctx, n int, mode int) []byte {
	out := make([]byte, n)
	for i := range out {
		var b byte
		switch mode {
		case 0: // ASCII text
			const text = "abcdefghij klmnop\n\t>/=\"'&;0123456789"
			b = text[c.Rng.Intn(len(text))]
		case 1: // all byte values
			b = byte(c.Rng.Intn(256))
		default: // mostly high bytes
			b = byte(0x80 + c.Rng.Intn(128))
			if c.Rng.Intn(8) == 0 {
				b = 'x'
			}
		}
		if b == '<' {
			b = '>'
		}
		out[i] = b
	}

	return out
}

type c20Body struct {
	body    []byte
	desc    string
	nearOff int
}

// c20NearMarker returns a byte string that is one byte away from a marker:
// the case bit, the high bit or the value of one byte is changed, so that a
// matcher that masks or folds bytes too generously takes it for a marker.
func c20NearMarker(c *core.Ctx) []byte {
	for try := 0; try < 20; try++ {
		m := []byte(c20RandCase(c, c20Markers[c.Rng.Intn(len(c20Markers))]))
		i := c.Rng.Intn(len(m))
		switch c.Rng.Intn(5) {
		case 0:
			m[i] ^= 0x20 // '<' -> 0x1c, '/' -> 0x0f (letters just change case)
		case 1:
			m[i] ^= 0x80
		case 2:
			m[i]++
		case 3:
			m[i] &^= 0x20
		default:
			m[i] ^= 0x40
		}
		if c20FirstMarker(m) == -1 && m[i] != '<' {
			return m
		}
	}

	return []byte("<lin")
}

func c20MakeBody(c *core.Ctx) c20Body {
	mode := c.Rng.Intn(3)
	var buf bytes.Buffer
	desc := []string{"ascii", "all-bytes", "high-bytes"}[mode]
	// Position of the first marker.
	var pos int
	switch c.Rng.Intn(10) {
	case 0:
		pos = -1 // no marker at all
	case 1:
		pos = 0
	case 2:
		pos = c.Rng.Intn(64)
	case 3:
		pos = c20Window - 1 - c.Rng.Intn(12)
	case 4:
		pos = c20Window + c.Rng.Intn(12)
	case 5:
		pos = c20Window - 1
	case 6:
		pos = c20Window
	case 7:
		pos = c20Window/2 + c.Rng.Intn(c20Window/2+200) // high bytes push the transcoded offset over the window
	case 8:
		pos = c.Rng.Intn(3 * c20Window)
	default:
		pos = c.Rng.Intn(2000)
	}
	if pos < 0 {
		n := c.Rng.Intn(40000)
		if c.Rng.Intn(4) == 0 {
			n = c.Rng.Intn(10)
		}
		buf.Write(c20Filler(c, n, mode))
		if c.Rng.Intn(3) == 0 {
			// near markers only
			if c.Rng.Intn(2) == 0 {
				buf.Write(c20NearMarker(c))
			} else {
				buf.WriteString([]string{"</hea", "<scrip", "<lin", "<styl", "< script", "<\x00link", "</ head"}[c.Rng.Intn(7)])
			}
			buf.Write(c20Filler(c, c.Rng.Intn(100), mode))
		}

		return c20Body{body: buf.Bytes(), desc: desc + ",no-marker"}
	}
	buf.Write(c20Filler(c, pos, mode))
	if pos > 10 && c.Rng.Intn(3) == 0 {
		// A near-marker before the real one.
		b := buf.Bytes()
		nm := []string{"</hea>", "<scrip>", "<lin", "<sty le"}[c.Rng.Intn(4)]
		if c.Rng.Intn(2) == 0 {
			nm = string(c20NearMarker(c)) + ">"
		}
		if pos <= len(nm)+1 {
			nm = "<x"
		}
		at := c.Rng.Intn(pos - len(nm))
		copy(b[at:], nm)
	}
	if c.Rng.Intn(6) == 0 {
		// The beginning of a marker directly in front of the real one (a
		// scanner that skips ahead after a failed partial match must not jump
		// over the '<' that follows).
		pre := []string{"<", "<<", "</", "<s", "<scri", "</hea", "<lin", "<<<"}[c.Rng.Intn(8)]
		if b := buf.Bytes(); pos >= len(pre) {
			copy(b[pos-len(pre):], c20RandCase(c, pre))
			desc += ",partial-marker-directly-before"
		}
	}
	n := 1 + c.Rng.Intn(4)
	for i := 0; i < n; i++ {
		buf.WriteString(c20RandCase(c, c20Markers[c.Rng.Intn(len(c20Markers))]))
		buf.WriteString([]string{">", " src=x>", "", " "}[c.Rng.Intn(4)])
		buf.Write(c20Filler(c, c.Rng.Intn(300), mode))
	}
	if c.Rng.Intn(3) == 0 {
		buf.Write(c20Filler(c, c.Rng.Intn(30000), mode))
	}

	return c20Body{body: buf.Bytes(), desc: desc}
}

type c20Witness struct {
	Desc       string `json:"description"`
	BodyLen    int    `json:"body_len"`
	Gzip       bool   `json:"gzip"`
	MarkerAt   int    `json:"first_marker_offset"`
	Transcoded int    `json:"first_marker_transcoded_offset"`
	Head       string `json:"body_head_hex"`
	Around     string `json:"around_marker_hex,omitempty"`
	OutLen     int    `json:"output_len"`
	Problem    string `json:"problem"`
}

func hexHead(b []byte, n int) string {
	if len(b) > n {
		b = b[:n]
	}
	const hexd = "0123456789abcdef"
	out := make([]byte, 0, len(b)*2)
	for _, x := range b {
		out = append(out, hexd[x>>4], hexd[x&15])
	}

	return string(out)
}

type c20Pending struct {
	mb      c20Body
	body    []byte
	useGzip bool
	i       int
	w       c20Witness
	tag     string
	res     *http.Response
	err     error
}

func c20Run(c *core.Ctx, idx int) {
	// Four responses are filtered first; their new bodies are read only
	// afterwards, in another order, the way a proxy streams a body after the
	// handler has returned while other responses are being filtered.
	var pend []*c20Pending
	// One server for the four sessions of the case (the proxy has one for all):
	// pages of the same and of other hosts, with verdicts that switch different
	// cosmetic options off (the tag carries them).
	srv := proxy.VerifNewServer()
	if c.Rng.Intn(2) == 0 {
		// The proxy runs with a filtering engine; what its lists say about a
		// page (nothing, generic rules only, rules for the page's host, rules
		// for another host) has no say in how the tag is inserted.
		if dir, derr := os.MkdirTemp(filepath.Join(c.Env.VerifDir, ".work"), "c20f."); derr == nil {
			defer os.RemoveAll(dir)
			fn := filepath.Join(dir, "filter.txt")
			content := []string{"", "! nothing but a comment\n", "##.generic-banner\n", "example.org##.banner\nexample.org#@#.generic-banner\n", "other.example.net##.x\n||ads.example^\n",
				"||example.org^$elemhide\n##.generic-banner\n", "sub.example.org,xn--bcher-kva.example##.y\n@@||example.org^$document\n"}[c.Rng.Intn(7)]
			if os.WriteFile(fn, []byte(util.ChopEOL(content)), 0o644) == nil {
				if s2, serr := proxy.VerifNewServerWithFilters(map[int]string{1: fn}); serr == nil {
					srv = s2
					c.Event("cases_on_a_server_with_a_filtering_engine", 1)
				}
			}
		}
	}
	for k := 0; k < 4; k++ {
		pageURL := []string{"http://example.org/index.html", "http://example.org/index.html", "http://example.org/other.html", "https://sub.example.org/", "http://other.example.net/",
			// Internationalized names the way browsers send them, capitals, a
			// port, an address.
			"http://xn--bcher-kva.example/", "http://xn--e1afmkfd.xn--p1ai/page?q=1", "https://www.xn--mnchen-3ya.de:8443/", "http://EXAMPLE.org/Index.html", "http://192.168.1.1/admin", "http://xn--zckzah.xn--zckzah/"}[c.Rng.Intn(11)]
		// (an HTML page is an HTML page whatever method fetched it)
		method := []string{"GET", "GET", "GET", "POST", "PUT"}[c.Rng.Intn(5)]
		result := &rules.MatchingResult{}
		if c.Rng.Intn(2) == 0 {
			if exc, perr := rules.NewNetworkRule("@@||example.org^$"+[]string{"generichide", "elemhide", "jsinject", "document", "elemhide,jsinject"}[c.Rng.Intn(5)], 0); perr == nil {
				result = rules.NewMatchingResult([]*rules.NetworkRule{exc}, nil)
			}
		}
		mb := c20MakeBody(c)
		body := mb.body
		useGzip := c.Rng.Intn(3) == 0
		if idx == 1 && k < 2 {
			// One case per run has documents of more than 16 MiB (as large as a
			// proxy may see), plain and compressed; what follows the inspected
			// prefix is preserved byte for byte like everything else.
			n := []int{16<<20 + 1, 20 << 20, 32<<20 + 5}[c.Rng.Intn(3)]
			unit := []byte("0123456789abcdef<p>text</p>\n")
			pad := bytes.Repeat(unit, n/len(unit)+1)[:n]
			body = append(append([]byte(nil), body...), pad...)
			mb.desc += " + " + strconv.Itoa(n) + " bytes of text"
			useGzip = k == 0
			c.Event("documents_larger_than_16_MiB", 1)
		}
		hdr := http.Header{}
		// The declared charset is whatever the server says; the bytes are
		// preserved whether or not they are well-formed in it.
		hdr.Set("Content-Type", []string{"text/html", "text/html", "text/html; charset=utf-8", "text/html; charset=UTF-8", "text/html; charset=windows-1251", "text/html; charset=euc-jp", "text/html; charset=utf-16", "text/html; charset=iso-8859-1", "text/html; charset=\"utf-8\"", "text/html; charset=nosuch"}[c.Rng.Intn(10)])
		wire := body
		if useGzip {
			// One gzip member, or several concatenated members (a legal stream).
			var zb bytes.Buffer
			parts := [][]byte{body}
			if c.Rng.Intn(3) == 0 && len(body) > 2 {
				a := 1 + c.Rng.Intn(len(body)-1)
				parts = [][]byte{body[:a], body[a:]}
				if c.Rng.Intn(2) == 0 && len(body)-a > 1 {
					b := a + 1 + c.Rng.Intn(len(body)-a-1)
					parts = [][]byte{body[:a], body[a:b], body[b:]}
				}
				c.Event("gzip_bodies_with_several_members", 1)
			}
			for _, p := range parts {
				zw := gzip.NewWriter(&zb)
				_, _ = zw.Write(p)
				_ = zw.Close()
			}
			wire = zb.Bytes()
			hdr.Set("Content-Encoding", "gzip")
		}
		hdr.Set("Content-Security-Policy", "default-src 'self'")

		i := c20FirstMarker(body)
		w := c20Witness{Desc: mb.desc, BodyLen: len(body), Gzip: useGzip, MarkerAt: i, Head: hexHead(body, 48)}
		if i >= 0 {
			w.Transcoded = c20TranscodedOffset(body, i)
			lo := max(0, i-8)
			w.Around = hexHead(body[lo:], 32)
		}

		p := &c20Pending{mb: mb, body: body, useGzip: useGzip, i: i, w: w}
		// The original body arrives the way a network body does: in pieces of
		// some size (also byte by byte, also the last piece together with
		// io.EOF), with a known or an unknown declared length.
		seg := &c20SegReader{data: append([]byte(nil), wire...), piece: []int{1 << 30, 1 << 30, 1, 13, 512, 1460, 4096, 16384}[c.Rng.Intn(8)], eofWithData: c.Rng.Intn(2) == 0}
		declared := int64(len(wire))
		if c.Rng.Intn(4) == 0 {
			declared = -1
		}
		if seg.piece < 1<<30 {
			c.Event("bodies_delivered_in_pieces", 1)
		}
		// The context of the page request: live, or done before the response is
		// filtered (the client went away, the deadline passed), or ending while
		// the body is being read.  The response that is handed on is the same.
		ctx, cancel := context.WithCancel(context.Background())
		switch c.Rng.Intn(8) {
		case 0:
			cancel()
			c.Event("page_requests_with_a_context_that_is_done", 1)
		case 1:
			var c2 context.CancelFunc
			ctx, c2 = context.WithDeadline(ctx, time.Unix(1, 0))
			defer c2()
			c.Event("page_requests_with_a_context_that_is_done", 1)
		case 2:
			seg.after, seg.afterN = cancel, 1+c.Rng.Intn(4)
			c.Event("page_requests_with_a_context_that_ends_while_the_body_is_read", 1)
		}
		defer cancel()
		if c.Guard("filterHTML", nil, w, func() {
			p.tag, p.res, p.err = proxy.VerifFilterHTMLCtx(ctx, srv, method, result, pageURL, seg, declared, hdr)
		}) {
			continue
		}
		pend = append(pend, p)
	}
	for _, pi := range c.Rng.Perm(len(pend)) {
		p := pend[pi]
		mb, body, useGzip, i, w, tag, res, err := p.mb, p.body, p.useGzip, p.i, p.w, p.tag, p.res, p.err
		var out []byte
		if err == nil && res != nil && res.Body != nil {
			out, err = io.ReadAll(res.Body)
		}
		c.Eval(1)
		fail := func(sig, problem string) {
			w.OutLen = len(out)
			w.Problem = problem
			c.Violation(sig, nil, w, "%s (body %d bytes, %s, first marker at %d / transcoded %d, gzip=%v)", problem, len(body), mb.desc, i, w.Transcoded, useGzip)
		}
		if err != nil {
			fail("filter-error", "filterHTML returned an error: "+err.Error())

			continue
		}
		if !strings.HasPrefix(strings.TrimSpace(tag), `<script src="//`) || !strings.HasSuffix(strings.TrimSpace(tag), "</script>") {
			fail("tag-shape", "injected tag does not have the content-script form: "+tag)

			continue
		}
		withTag := func() []byte {
			o := append([]byte(nil), body[:i]...)
			o = append(o, tag...)

			return append(o, body[i:]...)
		}
		mustInject := i >= 0 && w.Transcoded < c20Window
		mustNot := i < 0 || i >= c20Window
		switch {
		case mustInject:
			c.Event("marker_in_window", 1)
			if !bytes.Equal(out, withTag()) {
				if bytes.Equal(out, body) {
					fail("not-injected", "marker inside the inspected prefix but the body is unchanged")
				} else {
					fail("bytes-not-preserved", "output differs from body[:i]+tag+body[i:]: "+c20Diff(out, withTag()))
				}

				continue
			}
		case mustNot:
			c.Event("no_marker_in_window", 1)
			if !bytes.Equal(out, body) {
				fail("unexpected-change", "no marker starts inside the inspected prefix but the body changed: "+c20Diff(out, body))

				continue
			}
		default:
			// High bytes before the marker move the transcoded offset over the
			// window: either exact form is accepted.
			c.Event("marker_between_byte_and_transcoded_window", 1)
			if !bytes.Equal(out, body) && !bytes.Equal(out, withTag()) {
				fail("bytes-not-preserved", "output is neither the body nor body[:i]+tag+body[i:]")

				continue
			}
		}
		if res.ContentLength != int64(len(out)) {
			fail("content-length", "declared length differs from the body length")
		}
		if res.Header.Get("Content-Encoding") != "" {
			fail("content-encoding-kept", "Content-Encoding header still present although the body is decoded")
		}
		if i >= 0 {
			c.NonTrivial(core.Hash64(string(body[:min(len(body), 64)]), string(rune(i)), boolStr(useGzip)))
		}
		if c.WantSample() && i > 100 && c.Rng.Intn(50) == 0 {
			c.Sample(map[string]any{"body_len": len(body), "first_marker_offset": i, "kind": mb.desc, "gzip": useGzip, "output_len": len(out)})
		}
	}
}

func c20Diff(a, b []byte) string {
	n := min(len(a), len(b))
	for i := 0; i < n; i++ {
		if a[i] != b[i] {
			return "first difference at offset " + itoa(i) + ": got " + hexHead(a[i:], 8) + " want " + hexHead(b[i:], 8) + ", lengths " + itoa(len(a)) + "/" + itoa(len(b))
		}
	}

	return "lengths " + itoa(len(a)) + "/" + itoa(len(b))
}

func itoa(i int) string { return strconv.Itoa(i) }

// c20SegReader delivers data in pieces of at most piece bytes.
type c20SegReader struct {
	data        []byte
	piece       int
	eofWithData bool
	// after, when set, is called once after the afterN-th piece.
	after  func()
	afterN int
	pieces int
}

// Read implements io.Reader.
func (r *c20SegReader) Read(p []byte) (n int, err error) {
	if len(r.data) == 0 {
		return 0, io.EOF
	}
	n = min(len(p), r.piece, len(r.data))
	copy(p, r.data[:n])
	r.data = r.data[n:]
	if r.pieces++; r.after != nil && r.pieces == r.afterN {
		r.after()
	}
	if len(r.data) == 0 && r.eofWithData {
		return n, io.EOF
	}

	return n, nil
}

// Close implements io.Closer.
func (r *c20SegReader) Close() error { return nil }

func init() {
	sizes := map[core.Tier]int{core.Quick: 6000, core.Thorough: 300000}
	core.Register(&core.Prop{
		ID:    "C20",
		Level: "exploration",
		Rule: "per case 4 bodies: ASCII, all 256 byte values or mostly high bytes, plain or gzip-encoded, with 0..4 markers (</head, <link, <style, <script in random letter case) whose first occurrence is placed at 0, early, at 16383/16384, straddling the window, beyond it, or where high-byte padding moves the transcoded offset over the window, with near-markers before it (truncated markers and markers with one byte changed in its case bit, high bit or value, e.g. 0x1c for '<'); " +
			"pages on ASCII, punycode and capitalised hosts, with a port, on an address; " +
			"case 1 of every run has two documents of more than 16 MiB (one of them gzip-encoded); " +
			"oracle on bytes: output == body[:i]+tag+body[i:] when the marker's transcoded offset is inside the window, output == body when no marker starts before byte 16384, either exact form in between; Content-Length == len(output), Content-Encoding removed, tag has the content-script form (hook VerifFilterHTMLCtx: pages fetched with GET, POST or PUT under a live context, one that is already done, or one that ends while the body is read; one server for the four sessions of a case (in half of the cases with a filtering engine over a filter file: empty, generic rules, rules for the page's host or for another one), pages of the same and of other hosts whose verdicts switch different cosmetic options off; the response is attached with Session.SetResponse and declares no charset, utf-8, windows-1251, euc-jp, utf-16, iso-8859-1 or an unknown one; the original body is delivered in pieces of 1 / 13 / 512 / 1460 / 4096 / 16384 bytes or at once, with a known or unknown declared length; the four responses of a case are filtered first and their bodies are read afterwards in another order); non-trivial = body with a marker; distinct by body head, marker offset and encoding",
		Assumptions: []string{
			"the 16 KiB window is measured by the code on the Latin-1 to UTF-8 transcoded text; between the byte and the transcoded bound either outcome is accepted",
		},
		Cases: func(t core.Tier) int { return sizes[t] },
		Run:   c20Run,
	})
}
