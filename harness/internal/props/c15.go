package props

import (
	"fmt"
	"strings"
	"sync"

	"github.com/AdguardTeam/urlfilter"
	"github.com/AdguardTeam/urlfilter/rules"

	"verifharness/internal/core"
	"verifharness/internal/gen"
	"verifharness/internal/util"
)

// C15: the cosmetic engine returns exactly the applicable, non-excepted selectors.

var c15Domains = []string{"example.org", "sub.example.org", "example.com", "a.com", "b.a.com", "google.*", "example.*", "a.co.uk", "xa.com", "evil.org", "org", "com", "co.uk", "uk", "maps.example.*", "www.google.*", "b.a.*", "cafe.de", "bad.*", "Example.ORG"}
var c15Selectors = []string{".banner", "#ad", ".ad-box", "div[id^=\"ads\"]", ".sponsored", ".x",
	// Selectors that differ in white space or letter case only are different
	// selectors (descendant combinator, case-sensitive class names).
	"div .ad", "div.ad", "div > .ad", "div>.ad", ".Banner", "div  .ad", "a[href*=\"ad server\"]", "a[href*=\"adserver\"]"}
var c15Hostnames = []string{
	"example.org", "sub.example.org", "deep.sub.example.org", "xexample.org", "example.org.evil.org", "example.com", "www.example.com",
	"a.com", "b.a.com", "c.b.a.com", "xa.com", "google.com", "www.google.co.uk", "google.evil.xgoogle.com", "xgoogle.com", "example.de",
	"a.co.uk", "b.a.co.uk", "evil.org", "unrelated.net", "org", "localhost",
	"maps.example.com", "www.maps.example.co.uk", "xmaps.example.com", "maps.example.evil.org", "www.google.de", "b.a.org", "c.b.a.co.uk",
	// Many labels: the walk over parent domains has no small bound.
	"a.b.c.d.e.f.g.h.i.j.k.l.example.org", gen.DeepHost,
	// Names made of hexadecimal characters only, and addresses.
	"cafe.de", "abc.cafe.de", "bad.ee", "fe.bad.be", "1.2.3.4", "::1",
	// Capital letters (names are compared as written).
	"Example.ORG", "sub.Example.ORG", "EXAMPLE.org", "Sub.example.org",
}

// c15CollidingSelectors is set per case: selectors with the same FastHash.
var c15CollidingSelectors []string

func c15Rule(c *core.Ctx) string {
	exception := c.Rng.Intn(4) == 0
	var doms []string
	nd := 0
	switch c.Rng.Intn(6) {
	case 0, 1:
		nd = 0
	case 2, 3:
		nd = 1
	default:
		nd = 2 + c.Rng.Intn(3)
	}
	if exception && nd == 0 {
		nd = 1
	}
	hasPermitted := false
	for _, i := range c.Rng.Perm(len(c15Domains))[:nd] {
		d := c15Domains[i]
		if c.Rng.Intn(4) == 0 {
			d = "~" + d
		} else {
			hasPermitted = true
		}
		doms = append(doms, d)
	}
	if c.Rng.Intn(10) == 0 && len(doms) > 0 && !strings.HasPrefix(doms[0], "~") {
		// A domain that is both permitted and restricted.
		doms = append(doms, "~"+doms[0])
	}
	if exception && !hasPermitted {
		doms = append(doms, c15Domains[c.Rng.Intn(len(c15Domains))])
		hasPermitted = true
	}
	if len(doms) > 0 && c.Rng.Intn(30) == 0 {
		// A long domain list (fillers in the polarity that changes nothing).
		n := 15 + c.Rng.Intn(66)
		if c.Rng.Intn(4) == 0 {
			// (a line longer than the 4 KiB and 8 KiB read buffers, as the
			// real lists have)
			n = []int{230, 330, 480}[c.Rng.Intn(3)]
			c.Event("cosmetic_rules_longer_than_4k", 1)
		}
		for i := 0; i < n; i++ {
			f := fmt.Sprintf("f%d.filler.example", i)
			if !hasPermitted {
				f = "~" + f
			}
			j := c.Rng.Intn(len(doms) + 1)
			doms = append(doms[:j], append([]string{f}, doms[j:]...)...)
		}
	}
	marker := "##"
	if exception {
		marker = "#@#"
	}

	sel := c15Selectors[c.Rng.Intn(len(c15Selectors))]
	if len(c15CollidingSelectors) > 0 && c.Rng.Intn(2) == 0 {
		sel = c15CollidingSelectors[c.Rng.Intn(len(c15CollidingSelectors))]
	}

	return strings.Join(doms, ",") + marker + sel
}

type c15Witness struct {
	List     []string `json:"list"`
	Hostname string   `json:"hostname"`
	Flags    string   `json:"flags_css_js_generic"`
	Via      string   `json:"via"`
	Bucket   string   `json:"bucket"`
	Got      []string `json:"got"`
	Want     []string `json:"want"`
}

// c15Catalog is the catalogue for the exhaustive part: one selector, every
// single-domain shape as a rule and as an exception, negations, and a domain
// that is both permitted and restricted.
var c15Catalog = func() (out []string) {
	out = append(out, "##.a")
	for _, d := range c15Domains {
		out = append(out, d+"##.a", "~"+d+"##.a", d+"#@#.a")
	}
	out = append(out, "example.org,~sub.example.org##.a", "example.org,~example.org##.a", "example.*,~example.com##.a", "a.com,b.a.com##.a", "example.org,a.com#@#.a", "~example.org,example.com#@#.a")

	return out
}()

func c15Pairs() (out [][]int) {
	n := len(c15Catalog)
	for i := 0; i < n; i++ {
		out = append(out, []int{i})
		for j := i + 1; j < n; j++ {
			out = append(out, []int{i, j})
		}
	}

	return out
}

func c15Triples() (out [][]int) {
	n := len(c15Catalog)
	for i := 0; i < n; i++ {
		for j := i + 1; j < n; j++ {
			for k := j + 1; k < n; k++ {
				out = append(out, []int{i, j, k})
			}
		}
	}

	return out
}

const c15Batch = 8

func c15ExhaustiveSets(t core.Tier) [][]int {
	sets := c15Pairs()
	if t == core.Thorough {
		sets = append(sets, c15Triples()...)
	}

	return sets
}

var c15SetCache = map[core.Tier][][]int{}

func c15Run(c *core.Ctx, idx int) {
	sets, ok := c15SetCache[c.Env.Tier]
	if !ok {
		sets = c15ExhaustiveSets(c.Env.Tier)
		c15SetCache[c.Env.Tier] = sets
	}
	ne := (len(sets) + c15Batch - 1) / c15Batch
	if idx < ne {
		for k := idx * c15Batch; k < (idx+1)*c15Batch && k < len(sets); k++ {
			var list []string
			for _, i := range sets[k] {
				list = append(list, c15Catalog[i])
			}
			c15RunList(c, util.Shuffle(c.Rng, list))
			c.Event("catalogue_sets", 1)
		}

		return
	}
	n := 1 + c.Rng.Intn(10)
	if c.Rng.Intn(12) == 0 {
		// Many rules for the same few selectors and domains.
		n = 20 + c.Rng.Intn(100)
	}
	var list []string
	c15CollidingSelectors = nil
	if c.Rng.Intn(2) == 0 {
		pre := []string{".ad-a", "#banner-a", ".sponsor-a", "div.x"}[c.Rng.Intn(4)]
		if groups := gen.CollidingTails(pre); len(groups) > 0 {
			for _, t := range groups[c.Rng.Intn(len(groups))] {
				c15CollidingSelectors = append(c15CollidingSelectors, pre+t)
			}
			c.Event("lists_with_hash_colliding_selectors", 1)
		}
	}
	for i := 0; i < n; i++ {
		list = append(list, c15Rule(c))
	}
	c15RunList(c, list)
}

func c15RunList(c *core.Ctx, texts []string) {
	var list []string
	var parsed []*rules.CosmeticRule
	for _, t := range texts {
		r, err := rules.NewCosmeticRule(t, 1)
		if err != nil {
			c.Inconclusive("rule-rejected-by-parser")

			continue
		}
		list = append(list, t)
		parsed = append(parsed, r)
	}
	if len(list) == 0 {
		return
	}
	// The rules are spread over 1..3 lists (the first rules of the lists then
	// share their offset inside the list).
	nl := 1 + c.Rng.Intn(3)
	parts := make([][]string, nl)
	for i, t := range list {
		k := c.Rng.Intn(nl)
		if i < nl {
			k = i
		}
		parts[k] = append(parts[k], t)
	}
	var contents []string
	for _, p := range parts {
		contents = append(contents, util.Lines(p))
	}
	if nl > 1 {
		c.Event("rule_sets_split_over_several_lists", 1)
	}
	if c.Rng.Intn(3) == 0 {
		// A list that holds no rule at all (empty, comments only, blank lines,
		// only lines the parser rejects) in front of or between the others.
		at := c.Rng.Intn(len(contents))
		none := []string{"", "! comments only\n# nothing else\n", "\n\n", "##\n#@#\nexample.org##\n"}[c.Rng.Intn(4)]
		contents = append(contents[:at], append([]string{none}, contents[at:]...)...)
		c.Event("storages_with_a_list_without_rules_before_another_list", 1)
	}
	storage := util.Storage(contents...)
	ce := urlfilter.NewCosmeticEngine(storage)
	eng := urlfilter.NewEngine(util.Storage(contents...))

	for _, h := range c15Hostnames {
		// Reference as the property defines it.
		var wantG, wantS []string
		for _, r := range parsed {
			if r.Whitelist || !r.Match(h) {
				continue
			}
			cancelled := false
			for _, e := range parsed {
				if e.Whitelist && e.Content == r.Content && e.Match(h) {
					cancelled = true
				}
			}
			if cancelled {
				continue
			}
			if r.IsGeneric() {
				wantG = append(wantG, r.Content)
			} else {
				wantS = append(wantS, r.Content)
			}
		}
		wantG, wantS = util.SortedSet(wantG), util.SortedSet(wantS)
		if len(wantG)+len(wantS) > 0 {
			c.NonTrivial(core.Hash64(append([]string{h}, list...)...))
		}
		if len(wantS) > 0 {
			c.Event("hostnames_with_specific_selectors", 1)
		}

		for flags := 0; flags < 8; flags++ {
			css, js, generic := flags&1 != 0, flags&2 != 0, flags&4 != 0
			eg, es := wantG, wantS
			if !css {
				eg, es = nil, nil
			} else if !generic {
				eg = nil
			}
			judge := func(via string, res urlfilter.CosmeticResult) {
				c.Eval(1)
				gg, gs := util.SortedSet(res.ElementHiding.Generic), util.SortedSet(res.ElementHiding.Specific)
				fl := boolStr(css) + "/" + boolStr(js) + "/" + boolStr(generic)
				if !util.EqualStrings(gg, eg) {
					dir := "generic-extra"
					if len(util.Diff(eg, gg)) > 0 {
						dir = "generic-missing"
					}
					c.Violation(dir+":"+via, nil, c15Witness{list, h, fl, via, "generic", gg, eg}, "%s(%q, css/js/generic=%s) generic selectors %v, reference %v; list %v", via, h, fl, gg, eg, list)
				}
				if !util.EqualStrings(gs, es) {
					dir := "specific-extra"
					if len(util.Diff(es, gs)) > 0 {
						dir = "specific-missing"
					}
					c.Violation(dir+":"+via, nil, c15Witness{list, h, fl, via, "specific", gs, es}, "%s(%q, css/js/generic=%s) specific selectors %v, reference %v; list %v", via, h, fl, gs, es, list)
				}
				if len(res.ElementHiding.GenericExtCSS)+len(res.ElementHiding.SpecificExtCSS)+len(res.CSS.Generic)+len(res.CSS.Specific)+len(res.JS.Generic)+len(res.JS.Specific) > 0 {
					c.Violation("unexpected-bucket:"+via, nil, c15Witness{List: list, Hostname: h, Via: via}, "%s(%q) filled a bucket no element-hiding rule belongs to", via, h)
				}
			}
			judge("CosmeticEngine.Match", ce.Match(h, css, js, generic))
			var opt rules.CosmeticOption
			if css {
				opt |= rules.CosmeticOptionCSS
			}
			if js {
				opt |= rules.CosmeticOptionJS
			}
			if generic {
				opt |= rules.CosmeticOptionGenericCSS
			}
			judge("Engine.GetCosmeticResult", eng.GetCosmeticResult(h, opt))
		}
	}
	if c.Rng.Intn(4) == 0 {
		// The engine answers pages that load at the same time: asked about
		// all host names at once from as many goroutines, it gives every one
		// of them the answer it gives when asked alone.
		type ans struct{ g, s string }
		alone := make([]ans, len(c15Hostnames))
		for i, h := range c15Hostnames {
			r := ce.Match(h, true, true, true)
			alone[i] = ans{strings.Join(util.Sorted(r.ElementHiding.Generic), ";"), strings.Join(util.Sorted(r.ElementHiding.Specific), ";")}
		}
		var wg sync.WaitGroup
		start := make(chan struct{})
		diff := make([]string, len(c15Hostnames))
		for i, h := range c15Hostnames {
			wg.Add(1)
			go func(i int, h string) {
				defer wg.Done()
				defer func() {
					if r := recover(); r != nil {
						diff[i] = fmt.Sprintf("panic: %v", r)
					}
				}()
				<-start
				for k := 0; k < 12 && diff[i] == ""; k++ {
					var r urlfilter.CosmeticResult
					if k%2 == 0 {
						r = ce.Match(h, true, true, true)
					} else {
						r = eng.GetCosmeticResult(h, rules.CosmeticOptionAll)
					}
					got := ans{strings.Join(util.Sorted(r.ElementHiding.Generic), ";"), strings.Join(util.Sorted(r.ElementHiding.Specific), ";")}
					if got != alone[i] {
						diff[i] = fmt.Sprintf("generic %q specific %q, alone generic %q specific %q", got.g, got.s, alone[i].g, alone[i].s)
					}
				}
			}(i, h)
		}
		close(start)
		wg.Wait()
		c.Eval(len(c15Hostnames))
		c.Event("lists_queried_for_all_host_names_at_once", 1)
		for i, d := range diff {
			if d != "" {
				c.Violation("answer-differs-next-to-other-queries", nil, c15Witness{List: list, Hostname: c15Hostnames[i], Via: "concurrent Match / GetCosmeticResult"},
					"%q asked about at the same time as %d other host names: %s; list %v", c15Hostnames[i], len(c15Hostnames)-1, d, list)

				break
			}
		}
	}
	if c.WantSample() && len(list) >= 4 && c.Rng.Intn(40) == 0 {
		c.Sample(map[string]any{"list": list, "hostnames": len(c15Hostnames), "flag_combinations": 8})
	}
}

func init() {
	sizes := map[core.Tier]int{core.Quick: 6000, core.Thorough: 2500000}
	core.Register(&core.Prop{
		ID:    "C15",
		Level: "exploration",
		Rule: "(sampled lists: one long domain list in four has 230 / 330 / 480 entries, a line longer than the 4 KiB and 8 KiB read buffers) exhaustive part: every single rule and every pair (thorough: also every triple) of a 58-shape catalogue (one selector; every domain value as rule, negated rule and exception; permitted+restricted combinations) x 29 hostnames x 8 flag combinations; sampled part: per case a list of 1..10 element-hiding rules and exceptions (generic, one or many domains, negated domains, wildcard TLD, a domain both permitted and restricted, duplicated selectors) x 29 hostnames (listed domain, subdomain, deeper subdomain, sibling, label-boundary neighbour, unrelated) x all 8 flag combinations, through CosmeticEngine.Match and Engine.GetCosmeticResult; " +
			"oracle = the reference of the statement computed with CosmeticRule.Match over all rules, compared per bucket as sets; non-trivial = (list, hostname) with at least one expected selector; distinct by (hostname, list)",
		Assumptions: []string{
			"CosmeticRule.Match is the definition of 'applies to the hostname' (its domain semantics are checked by C04 through the shared helper)",
			"result buckets are compared as sets",
		},
		Cases: func(t core.Tier) int {
			return (len(c15ExhaustiveSets(t))+c15Batch-1)/c15Batch + sizes[t]
		},
		Run: c15Run,
	})
}
