package props

import (
	"github.com/AdguardTeam/urlfilter/filterlist"
	"net/netip"
	"os"
	"path/filepath"
	"slices"
	"strings"

	"github.com/AdguardTeam/urlfilter"
	"github.com/AdguardTeam/urlfilter/rules"

	"verifharness/internal/core"
	"verifharness/internal/gen"
	"verifharness/internal/util"
)

// C18: hosts-file lines yield exactly the listed names with the given address.

type c18Line struct {
	// InComment are names that occur in the comment only.
	InComment []string `json:"names_in_comment_only,omitempty"`
	Text      string   `json:"text"`
	IP        string   `json:"ip,omitempty"` // empty = bare domain form
	Names     []string `json:"names"`
	Comment   string   `json:"comment,omitempty"`
}

var c18IPs = []string{"0.0.0.0", "127.0.0.1", "192.168.1.10", "10.0.0.1", "255.255.255.255", "::", "::1", "2001:db8::1", "fe80::1", "::ffff:1.2.3.4", "::ffff:0:0", "1.1.1.1", "fe80::1%eth0", "0:0:0:0:0:0:0:1", "2001:DB8::A", "0000:0000:0000:0000:0000:ffff:192.168.100.200", "0:0:0:0:0:ffff:192.168.1.1", "ffff:ffff:ffff:ffff:ffff:ffff:ffff:ffff"}

var c18Labels = []string{"example", "ads", "tracker", "a", "x1", "my-host", "cdn", "www", "sub", "test", "zz", "longer-label-with-dashes", "under_score", "9to5", "xn--p1ai", gen.Label63, "cafe", "bad", "abc", "fe", "dead", "beef", "0", "00"}
var c18UTF8Labels = []string{"voil\u00e0", "\u0443\u0441\u043f\u0435\u0445", "\u516c\u53f8", "b\u00fccher", "tsch\u00fc\u00df", "\u65e5\u672c", "na\u00efve", "\u0445\u043e\u0441\u0442"}
var c18TLDs = []string{"org", "com", "net", "local", "co.uk", "io", "ru", "xn--p1ai", "lan", "de", "ee", "be", "cafe", "ca", "xn--vermgensberater-ctb", "xn--vermgensberatung-pwb", "xn--mgbc0a9azcg", "xn--80adxhks", "xn--ab-cd"}

func c18Name(c *core.Ctx, bare bool) string {
	if c.Rng.Intn(12) == 0 && len(gen.HostGroups) > 0 {
		// Names whose 32-bit hashes collide (the hosts table is keyed by it).
		g := gen.HostGroups[c.Rng.Intn(len(gen.HostGroups))]

		return g[c.Rng.Intn(len(g))]
	}
	n := 1 + c.Rng.Intn(3)
	var parts []string
	for i := 0; i < n; i++ {
		l := c18Labels[c.Rng.Intn(len(c18Labels))]
		if bare && l == "under_score" {
			l = "under-score"
		}
		parts = append(parts, l)
	}
	if !bare && c.Rng.Intn(10) == 0 {
		// Names written in UTF-8 instead of punycode are names like any other
		// after an address (their bytes include 0x85 and 0xa0, which are blanks
		// in Latin-1 / as single code points).
		parts[c.Rng.Intn(len(parts))] = c18UTF8Labels[c.Rng.Intn(len(c18UTF8Labels))]
	}
	if !bare && c.Rng.Intn(6) == 0 {
		// Single-label names are fine after an address.
		return parts[0]
	}
	if c.Rng.Intn(15) == 0 {
		// Names are taken as written, whatever their letter case.
		parts[0] = strings.ToUpper(parts[0][:1]) + parts[0][1:]
	}

	return strings.Join(parts, ".") + "." + c18TLDs[c.Rng.Intn(len(c18TLDs))]
}

func c18Blank(c *core.Ctx) string {
	n := 1 + c.Rng.Intn(3)
	var sb strings.Builder
	for i := 0; i < n; i++ {
		sb.WriteByte(" \t"[c.Rng.Intn(2)])
	}

	return sb.String()
}

var c18CommentBodies = []string{
	"", "note", " note", " phishing site", "#", " ## phishing", "!x", " a.com b.com", " 1.2.3.4 evil.com", "\tTAB", " see http://x.y/?a=b&c=d",
	// A marker-like sequence later in the comment is comment text like any other.
	"## section", " see ads.example##.banner", "unhide: x.example#@#.ad", "first##second", " a#?#b", " x#%#y //", " x#$#y", " ###", " a.example#@?#b",
	" price: 5$", " 100% ads", " @@||x^", " ,;:[]{}()<>", " $important", "x#y#z", " $$ html", " a$$b", " a$@$b", " cost:$$", "$$x", "$@$y", " $ $", " ?#x", "@#x", "?#x", "%#x", "$#x",
}

// c18MakeLine builds a line of the grammar of the quantifier.
func c18MakeLine(c *core.Ctx) c18Line {
	var l c18Line
	var sb strings.Builder
	bare := c.Rng.Intn(4) == 0
	if bare {
		l.Names = []string{c18Name(c, true)}
		sb.WriteString(l.Names[0])
	} else {
		l.IP = c18IPs[c.Rng.Intn(len(c18IPs))]
		sb.WriteString(l.IP)
		n := 1 + c.Rng.Intn(8)
		long := -1
		if c.Rng.Intn(60) == 0 {
			// A run of blanks longer than any read buffer is still a run of blanks.
			long = c.Rng.Intn(n)
		}
		for i := 0; i < n; i++ {
			nm := c18Name(c, false)
			l.Names = append(l.Names, nm)
			sb.WriteString(c18Blank(c))
			if i == long {
				sb.WriteString(strings.Repeat(" \t"[c.Rng.Intn(2):][:1], []int{4090, 4200, 8300}[c.Rng.Intn(3)]))
			}
			sb.WriteString(nm)
		}
	}
	if c.Rng.Intn(60) == 0 {
		// A comment longer than any read buffer, with a name at its end.
		l.InComment = []string{"only-in-comment.example"}
		l.Comment = "#" + strings.Repeat(" ", []int{4090, 4200, 8300}[c.Rng.Intn(3)]) + l.InComment[0]
		sb.WriteString(c18Blank(c))
		sb.WriteString(l.Comment)
		l.Text = sb.String()

		return l
	}
	if c.Rng.Intn(3) > 0 {
		body := c18CommentBodies[c.Rng.Intn(len(c18CommentBodies))]
		blank := c.Rng.Intn(2) == 0
		if !blank {
			// Without a blank before '#' the comment must not start a cosmetic
			// marker: such a line is element-hiding syntax by design.
			for _, m := range []string{"#", "@#", "?#", "$#", "%#", "@?#", "@$#", "$?#", "@$?#", "@%#"} {
				if strings.HasPrefix(body, m) {
					blank = true
				}
			}
		}
		if blank {
			sb.WriteString(c18Blank(c))
		}
		l.Comment = "#" + body
		sb.WriteString(l.Comment)
	}
	if c.Rng.Intn(4) == 0 {
		sb.WriteString(c18Blank(c))
	}
	l.Text = sb.String()

	return l
}

// c18KnownTag recognises the recorded finding: the first '$' of the line opens
// an HTML-filtering marker and is not preceded by a space, so NewRule takes the
// line for a cosmetic rule.
func c18KnownTag(line string) []string {
	i := strings.IndexByte(line, '$')
	if i > 0 && line[i-1] != ' ' && line[i-1] != '\t' && (strings.HasPrefix(line[i:], "$$") || strings.HasPrefix(line[i:], "$@$")) && strings.IndexByte(line, '#') < i {
		return []string{"hosts-comment-html-marker"}
	}

	return nil
}

func c18WantIP(l c18Line) netip.Addr {
	if l.IP == "" {
		return netip.IPv4Unspecified()
	}

	return netip.MustParseAddr(l.IP)
}

func c18CheckRule(c *core.Ctx, via string, l c18Line, r rules.Rule, err error) (hr *rules.HostRule) {
	c.Eval(1)
	tags := c18KnownTag(strings.TrimSpace(l.Text))
	if err != nil || r == nil {
		c.Violation("hosts-line-rejected:"+via, tags, l, "%s(%q): rejected (%v), expected names %v", via, l.Text, err, l.Names)

		return nil
	}
	hr, ok := r.(*rules.HostRule)
	if !ok {
		c.Violation("hosts-line-not-a-host-rule:"+via, tags, l, "%s(%q) returned %T, expected a host rule for %v", via, l.Text, r, l.Names)

		return nil
	}
	if !util.EqualStrings(hr.Hostnames, l.Names) {
		c.Violation("wrong-names:"+via, tags, l, "%s(%q).Hostnames = %q, expected %q", via, l.Text, hr.Hostnames, l.Names)

		return nil
	}
	if hr.IP != c18WantIP(l) {
		c.Violation("wrong-address:"+via, tags, l, "%s(%q).IP = %v, expected %v", via, l.Text, hr.IP, c18WantIP(l))

		return nil
	}
	for _, n := range l.Names {
		if !hr.Match(n) {
			c.Violation("match-false-for-listed-name", nil, l, "HostRule(%q).Match(%q) = false", l.Text, n)
		}
	}
	for _, n := range c18Perturb(l.Names[0]) {
		listed := false
		for _, m := range l.Names {
			listed = listed || m == n
		}
		if !listed && hr.Match(n) {
			c.Violation("match-true-for-unlisted-name", nil, l, "HostRule(%q).Match(%q) = true", l.Text, n)
		}
	}

	return hr
}

func c18Perturb(n string) []string {
	out := []string{n + "x", "x" + n, "sub." + n, n + ".", strings.ToUpper(n)}
	if len(n) > 1 {
		out = append(out, n[:len(n)-1], n[1:])
	}
	if i := strings.IndexByte(n, '.'); i >= 0 {
		out = append(out, n[i+1:])
	}

	return out
}

func c18Run(c *core.Ctx, idx int) {
	var lines []c18Line
	nLines := 12
	if c.Rng.Intn(10) == 0 {
		// A hosts file of several read blocks, backed by a file.
		nLines = 150
	}
	for k := 0; k < nLines; k++ {
		l := c18MakeLine(c)
		lines = append(lines, l)
		var r rules.Rule
		var err error
		if !c.Guard("NewRule", nil, l, func() { r, err = rules.NewRule(l.Text, 7) }) {
			if hr := c18CheckRule(c, "NewRule", l, r, err); hr != nil {
				if hr.FilterListID != 7 || hr.RuleText != strings.TrimSpace(l.Text) {
					c.Violation("text-or-list-id", nil, l, "NewRule(%q): text %q list %d", l.Text, hr.RuleText, hr.FilterListID)
				}
			}
		}
		var hr *rules.HostRule
		if !c.Guard("NewHostRule", nil, l, func() { hr, err = rules.NewHostRule(strings.TrimSpace(l.Text), 7) }) {
			var rr rules.Rule
			if hr != nil {
				rr = hr
			}
			c18CheckRule(c, "NewHostRule", l, rr, err)
		}
		if l.Comment != "" {
			c.NonTrivial(core.Hash64(l.Text))
		}
		if strings.Contains(l.Text, "#") && !strings.Contains(l.Text, " #") && !strings.Contains(l.Text, "\t#") {
			c.Event("comment_without_preceding_blank", 1)
		}
		if c.WantSample() && l.Comment != "" && c.Rng.Intn(200) == 0 {
			c.Sample(l)
		}
	}

	// Through the DNS engine: every listed name returns its rule in the right
	// address family; perturbed names do not.
	var texts []string
	listed := map[string][]c18Line{}
	for _, l := range lines {
		if len(c18KnownTag(strings.TrimSpace(l.Text))) > 0 {
			continue
		}
		texts = append(texts, l.Text)
		for _, n := range l.Names {
			listed[n] = append(listed[n], l)
		}
	}
	if c.Rng.Intn(8) == 0 {
		// A list saved by an editor that writes a byte order mark: it belongs to
		// the first line (here a comment), everything else is where it is.
		texts = append([]string{"\ufeff! saved with a byte order mark"}, texts...)
		c.Event("lists_starting_with_a_byte_order_mark", 1)
	}
	if c.Rng.Intn(3) == 0 {
		// Rules of the other kind about the same names that leave no basic
		// rule behind: a rule cancelled by its $badfilter twin, a lone
		// $badfilter rule, a rule with a browser-only modifier.  The hosts
		// entries are returned all the same.
		var names []string
		for n := range listed {
			names = append(names, n)
		}
		slices.Sort(names)
		for i, k := 0, 1+c.Rng.Intn(3); i < k && len(names) > 0; i++ {
			n := names[c.Rng.Intn(len(names))]
			var extra []string
			switch c.Rng.Intn(5) {
			case 0:
				extra = []string{"||" + n + "^", "||" + n + "^$badfilter"}
			case 1:
				extra = []string{"||" + n + "^$badfilter"}
			case 2:
				extra = []string{"@@||" + n + "^$important,badfilter", "@@||" + n + "^$important"}
			case 3:
				extra = []string{"||" + n + "^$script,third-party"}
			default:
				extra = []string{"|" + n + "^$dnstype=AAAA,badfilter", "|" + n + "^$dnstype=AAAA"}
			}
			for _, e := range extra {
				at := c.Rng.Intn(len(texts) + 1)
				texts = append(texts[:at], append([]string{e}, texts[at:]...)...)
			}
		}
		c.Event("hosts_lists_with_cancelled_network_rules_about_the_same_names", 1)
	}
	storage := util.StorageSplit(c.Rng, texts)
	if nLines > 12 {
		if dir, derr := os.MkdirTemp(filepath.Join(c.Env.VerifDir, ".work"), "c18f."); derr == nil {
			defer os.RemoveAll(dir)
			fn := filepath.Join(dir, "hosts.txt")
			if os.WriteFile(fn, []byte(util.ChopEOL(util.LinesEOL(texts, []string{"\n", "\r\n"}[c.Rng.Intn(2)]))), 0o644) == nil {
				if fl, ferr := filterlist.NewFileRuleList(0, fn, false); ferr == nil {
					if fs, serr := filterlist.NewRuleStorage([]filterlist.RuleList{fl}); serr == nil {
						storage = fs
						defer fs.Close()
						c.Event("file_backed_hosts_files_of_several_blocks", 1)
					}
				}
			}
		}
	}
	eng := urlfilter.NewDNSEngine(storage)
	for _, l := range lines {
		if len(c18KnownTag(strings.TrimSpace(l.Text))) > 0 {
			continue
		}
		name := l.Names[c.Rng.Intn(len(l.Names))]
		res, matched := eng.Match(name)
		c.Eval(1)
		want := map[string]bool{}
		for _, o := range listed[name] {
			want[strings.TrimSpace(o.Text)+"|"+boolStr(c18WantIP(o).Is4())] = true
		}
		got := map[string]bool{}
		for _, h := range res.HostRulesV4 {
			got[h.RuleText+"|true"] = true
		}
		for _, h := range res.HostRulesV6 {
			got[h.RuleText+"|false"] = true
		}
		same := len(got) == len(want) && matched && res.NetworkRule == nil
		for k := range want {
			same = same && got[k]
		}
		if !same {
			c.Violation("dns-engine-host-rules", nil, map[string]any{"list": texts, "query": name, "got": keys(got), "want": keys(want)},
				"DNSEngine.Match(%q) over %q: got %v matched=%v, expected %v", name, texts, keys(got), matched, keys(want))
		}
		others := append(c18Perturb(name), l.InComment...)
		for _, g := range gen.HostGroups {
			if slices.Contains(g, name) {
				// The other names with the same hash.
				others = append(others, g...)
			}
		}
		for _, p := range others {
			if p == name {
				continue
			}
			res, _ = eng.Match(p)
			c.Eval(1)
			for _, h := range append(append([]*rules.HostRule{}, res.HostRulesV4...), res.HostRulesV6...) {
				ok := false
				for _, o := range listed[p] {
					ok = ok || strings.TrimSpace(o.Text) == h.RuleText
				}
				if !ok {
					c.Violation("dns-engine-unlisted-name", nil, map[string]any{"list": texts, "query": p, "rule": h.RuleText},
						"DNSEngine.Match(%q) returned %q which does not list that name", p, h.RuleText)
				}
			}
		}
	}
}

func keys(m map[string]bool) (out []string) {
	for k := range m {
		out = append(out, k)
	}

	return util.Sorted(out)
}

func init() {
	sizes := map[core.Tier]int{core.Quick: 20000, core.Thorough: 6000000}
	core.Register(&core.Prop{
		ID:    "C18",
		Level: "exploration",
		Rule: "(DNS engine path: one list in three also holds network rules about the listed names that leave no basic rule - cancelled pairs, lone $badfilter rules, browser-only rules) per case 12 lines of the grammar IP (sp|tab)+ name ((sp|tab)+ name)* [ws* '#' any] | name [ws* '#' any] with IPv4/IPv6/IPv4-mapped addresses, 1..8 names, comments with and without a preceding blank (a cosmetic marker only after a blank), trailing blanks, " +
			"each through NewRule and NewHostRule (names, address, Match on listed and perturbed names) and all 12 together through DNSEngine.Match (right address family, perturbed names not returned); non-trivial = line with a comment; distinct by line text",
		Assumptions: []string{
			"when no blank precedes '#', the comment does not start a cosmetic marker (such a line is element-hiding syntax by design)",
			"names contain no '#' or '$'",
		},
		Setup: func(*core.Env) { gen.Collisions() },
		Cases: func(t core.Tier) int { return sizes[t] },
		Run:   c18Run,
	})
}
