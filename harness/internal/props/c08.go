package props

import (
	"fmt"
	"net/netip"
	"os"
	"path/filepath"
	"sort"
	"strconv"

	"github.com/AdguardTeam/urlfilter"
	"github.com/AdguardTeam/urlfilter/filterlist"
	"github.com/AdguardTeam/urlfilter/rules"

	"verifharness/internal/core"
	"verifharness/internal/gen"
	"verifharness/internal/util"
)

// C08: $badfilter disables exactly its twin rules, however many are present.

var c08Patterns = []string{"||ads.com^", "||ads.com", "||ads.com/", "://ads.com", "|http://ads.com", "||site.com^", "/banner", "||ads.com/banner"}

func c08RandomSpec(c *core.Ctx, pattern string, dns bool) *gen.Spec {
	s := &gen.Spec{Pattern: pattern, Exception: c.Rng.Intn(3) == 0}
	k := gen.AllMods
	if dns {
		k = gen.ModKinds{DenyAllow: true, DNSType: true, CTag: true, Client: true, Important: true}
	}
	gen.AddRandomMods(c.Rng, s, k, 0.22)
	if dns && c.Rng.Intn(4) == 0 {
		// (an escaped comma inside a value is part of the value wherever the
		// modifier stands in the list)
		v := []string{"1.2.3.4", "REFUSED", "NOERROR;MX;10 mail.example.net", "new.example.net", "::1", "NOERROR;TXT;a\\,b", "NOERROR;TXT;x\\,y\\,z"}[c.Rng.Intn(7)]
		s.DNSRewrite = &v
	}
	if !dns && !s.Exception && c.Rng.Intn(8) == 0 {
		// Blocking rules with one of the modifiers that say how to block: they
		// have twins like any other rule.
		switch c.Rng.Intn(3) {
		case 0:
			s.Popup, s.TypesP, s.TypesR = true, nil, nil
		case 1:
			s.Empty = true
		default:
			s.Mp4, s.TypesP, s.TypesR = true, nil, nil
		}
	}
	if !dns && s.Exception && c.Rng.Intn(10) == 0 {
		// A special-purpose exception (reported through StealthRule): it is
		// disabled by its twin like any other rule.
		return &gen.Spec{Pattern: pattern, Exception: true, Stealth: true}
	}
	if !dns && s.Exception && c.Rng.Intn(4) == 0 {
		s.DocOpts = []string{[]string{"elemhide", "urlblock", "genericblock", "jsinject", "document", "generichide"}[c.Rng.Intn(6)]}
	}

	return s
}

// c08Vary returns a copy of x that differs in exactly one aspect.
func c08Vary(c *core.Ctx, x *gen.Spec, dns bool) (y *gen.Spec, aspect string) {
	for try := 0; try < 20; try++ {
		y = x.Clone()
		switch c.Rng.Intn(14) {
		case 13:
			// The negated form of a flag modifier is another value of it:
			// $match-case, $~match-case and no modifier at all are three
			// different rules.
			var rest []string
			for _, e := range x.Extra {
				if e != "~match-case" {
					rest = append(rest, e)
				}
			}
			switch {
			case x.MatchCase:
				y.MatchCase = false
				if c.Rng.Intn(3) > 0 {
					y.Extra = append(append([]string(nil), x.Extra...), "~match-case")
				}
			case len(rest) != len(x.Extra):
				// (x itself carries the negated form)
				y.Extra = rest
				y.MatchCase = c.Rng.Intn(2) == 0
			case c.Rng.Intn(2) == 0:
				y.MatchCase = true
			default:
				y.Extra = append(append([]string(nil), x.Extra...), "~match-case")
			}
			aspect = "match-case"
		case 12:
			// A modifier of the filter syntax that this version does not
			// support (such a rule is rejected today, and the relation is
			// vacuous; once support is added, the value is part of the rule's
			// identity like any other).
			y.Extra = []string{[]string{"to=ads.com", "to=ads.com|other.org", "method=get", "header=x-test", "app=org.example"}[c.Rng.Intn(5)]}
			aspect = "future-modifier"
		case 0:
			if len(x.DocOpts) > 0 || x.Stealth || x.Popup {
				continue
			}
			y.Exception = !x.Exception
			aspect = "exception"
		case 1:
			for _, p := range []string{"||ads.com^", "||ads.com", "://ads.com", "||ads.com/"} {
				if p != x.Pattern {
					y.Pattern = p
				}
			}
			aspect = "pattern"
		case 2:
			if dns || len(x.DocOpts) > 0 || x.Popup {
				// Document-level options replace the content-type set, so
				// such rules would not differ for the library.
				continue
			}
			t := gen.TypeList[c.Rng.Intn(len(gen.TypeList))]
			has := false
			for _, e := range append(append([]string{}, x.TypesP...), x.TypesR...) {
				has = has || e == t
			}
			if has {
				continue
			}
			if c.Rng.Intn(2) == 0 {
				y.TypesP = append(y.TypesP, t)
			} else {
				y.TypesR = append(y.TypesR, t)
			}
			aspect = "content-type"
		case 3:
			if dns {
				continue
			}
			if x.ThirdParty == 0 {
				y.ThirdParty = 1
			} else {
				y.ThirdParty = 0
			}
			aspect = "third-party"
		case 4:
			y.Important = !x.Important
			aspect = "important"
		case 5:
			if dns {
				continue
			}
			if len(x.Domains) == 0 {
				y.Domains = []gen.Val{{Name: "site.com"}}
			} else {
				y.Domains = append(y.Domains, gen.Val{Name: "extra-domain.org"})
			}
			aspect = "domain"
		case 6:
			if len(x.DenyAllow) == 0 {
				y.DenyAllow = []string{"other.org"}
			} else if c.Rng.Intn(2) == 0 {
				y.DenyAllow = append(y.DenyAllow, "extra-deny.org")
			} else {
				y.DenyAllow = []string{"changed.org"}
			}
			aspect = "denyallow"
		case 7:
			if len(x.DNSTypes) == 0 {
				y.DNSTypes = []gen.Val{{Name: "A"}}
			} else {
				y.DNSTypes = append(y.DNSTypes, gen.Val{Name: "NS", Neg: true})
			}
			aspect = "dnstype"
		case 8:
			if len(x.CTags) == 0 {
				y.CTags = []gen.Val{{Name: "device_pc"}}
			} else {
				y.CTags = append(y.CTags, gen.Val{Name: "extra_tag"})
			}
			aspect = "ctag"
		case 9:
			switch {
			case len(x.Clients) == 0:
				y.Clients = []gen.Client{gen.ClientNames[0]}
			case c.Rng.Intn(2) == 0:
				// One more entry that changes nothing about WHICH clients match
				// (a prefix inside a listed prefix, a listed address again): it
				// is another value of the modifier all the same.
				for _, cl := range x.Clients {
					if cl.IsNet && cl.Prefix.Bits() < cl.Prefix.Addr().BitLen() {
						inner := netip.PrefixFrom(cl.Prefix.Addr(), cl.Prefix.Bits()+8).Masked()
						y.Clients = append(y.Clients, gen.Client{Text: inner.String(), Prefix: inner, IsNet: true, Neg: cl.Neg})

						break
					}
				}
				if len(y.Clients) == len(x.Clients) {
					y.Clients = append(y.Clients, x.Clients[0])
				}
			default:
				y.Clients = append(y.Clients, gen.Client{Text: "extra-client", Name: "extra-client"})
			}
			aspect = "client"
		case 10:
			if !dns {
				continue
			}
			if x.DNSRewrite == nil {
				v := "1.2.3.4"
				y.DNSRewrite = &v
			} else if *x.DNSRewrite == "1.2.3.4" {
				v := "4.3.2.1"
				y.DNSRewrite = &v
			} else {
				y.DNSRewrite = nil
			}
			aspect = "dnsrewrite"
		case 11:
			if dns {
				continue
			}
			y.MatchCase = !x.MatchCase
			aspect = "match-case"
		}
		if aspect != "" && y.CanonKey() != x.CanonKey() {
			return y, aspect
		}
	}

	return nil, ""
}

// c08Verdict is the observable verdict of one request.
type c08Verdict struct {
	Basic, Document, Stealth, Result string
	Cosmetic                         uint32
	DNSRule                          string
	V4, V6, Rewrites                 []string
	Matched                          bool
	basicRule, resultRule, dnsRule   *rules.NetworkRule
}

func c08Text(r *rules.NetworkRule) string {
	if r == nil {
		return ""
	}

	return r.RuleText
}

func c08HostTexts(hs []*rules.HostRule) (out []string) {
	for _, h := range hs {
		out = append(out, h.RuleText)
	}
	sort.Strings(out)

	return out
}

// c08Tied tells whether two selected rules are the same up to priority ties.
func c08Tied(a, b *rules.NetworkRule) bool {
	if a == nil || b == nil {
		return a == b
	}
	if a.RuleText == b.RuleText {
		return true
	}

	return a.Whitelist == b.Whitelist && !a.IsHigherPriority(b) && !b.IsHigherPriority(a)
}

func c08WebVerdict(mr *rules.MatchingResult) c08Verdict {
	res := mr.GetBasicResult()

	return c08Verdict{
		Basic: c08Text(mr.BasicRule), Document: c08Text(mr.DocumentRule), Stealth: c08Text(mr.StealthRule),
		Result: c08Text(res), Cosmetic: uint32(mr.GetCosmeticOption()), basicRule: mr.BasicRule, resultRule: res,
	}
}

func c08DNSVerdict(res *urlfilter.DNSResult, matched bool, sortRewrites bool) c08Verdict {
	v := c08Verdict{
		DNSRule: c08Text(res.NetworkRule), V4: c08HostTexts(res.HostRulesV4), V6: c08HostTexts(res.HostRulesV6),
		Rewrites: util.Texts(res.DNSRewrites()), Matched: matched, dnsRule: res.NetworkRule,
	}
	if sortRewrites {
		sort.Strings(v.Rewrites)
	}

	return v
}

// c08Compare compares two verdicts; exact demands identical rule texts,
// otherwise selected rules may differ within a priority tie.
func c08Compare(a, b c08Verdict, exact bool) (diff string) {
	eq := func(name string, x, y *rules.NetworkRule, xt, yt string) {
		if diff != "" {
			return
		}
		if exact {
			if xt != yt {
				diff = fmt.Sprintf("%s: %q vs %q", name, xt, yt)
			}
		} else if !c08Tied(x, y) {
			diff = fmt.Sprintf("%s: %q vs %q (not tied)", name, xt, yt)
		}
	}
	eq("BasicRule", a.basicRule, b.basicRule, a.Basic, b.Basic)
	eq("GetBasicResult", a.resultRule, b.resultRule, a.Result, b.Result)
	eq("DNS NetworkRule", a.dnsRule, b.dnsRule, a.DNSRule, b.DNSRule)
	if diff != "" {
		return diff
	}
	switch {
	case exact && a.Document != b.Document:
		return fmt.Sprintf("DocumentRule: %q vs %q", a.Document, b.Document)
	case (a.Document == "") != (b.Document == ""):
		return fmt.Sprintf("DocumentRule: %q vs %q", a.Document, b.Document)
	case (a.Stealth == "") != (b.Stealth == ""):
		return fmt.Sprintf("StealthRule: %q vs %q", a.Stealth, b.Stealth)
	case exact && a.Cosmetic != b.Cosmetic:
		return fmt.Sprintf("cosmetic option: %03b vs %03b", a.Cosmetic, b.Cosmetic)
	case !util.EqualStrings(a.V4, b.V4) || !util.EqualStrings(a.V6, b.V6):
		return fmt.Sprintf("host rules: %v %v vs %v %v", a.V4, a.V6, b.V4, b.V6)
	case !util.EqualStrings(a.Rewrites, b.Rewrites):
		return fmt.Sprintf("DNSRewrites(): %v vs %v", a.Rewrites, b.Rewrites)
	case a.Matched != b.Matched:
		return fmt.Sprintf("matched: %v vs %v", a.Matched, b.Matched)
	}

	return ""
}

type c08Witness struct {
	Relation string   `json:"relation"`
	Via      string   `json:"via"`
	Base     []string `json:"base_list"`
	Added    []string `json:"added"`
	Extended []string `json:"extended_list"`
	Request  *gen.Req `json:"request"`
	Diff     string   `json:"diff"`
}

// c08Insert inserts added lines at random positions of base, keeping the
// relative order of base.
func c08Insert(c *core.Ctx, base, added []string) []string {
	out := append([]string(nil), base...)
	for _, a := range util.Shuffle(c.Rng, added) {
		i := c.Rng.Intn(len(out) + 1)
		out = append(out[:i], append([]string{a}, out[i:]...)...)
	}

	return out
}

func c08ParseMatching(lines []string, req *rules.Request) (out []*rules.NetworkRule) {
	for _, l := range lines {
		r, err := rules.NewRule(l, 1)
		if err != nil || r == nil {
			continue
		}
		if nr, ok := r.(*rules.NetworkRule); ok && nr.Match(req) {
			out = append(out, nr)
		}
	}

	return out
}

func c08Run(c *core.Ctx, idx int) {
	dns := idx%2 == 0

	// Base list.
	var base []string
	canon := map[string]bool{}
	nbase := c.Rng.Intn(7)
	if c.Rng.Intn(20) == 0 {
		// A long base list: many rules match the request at once.
		nbase = 13 + c.Rng.Intn(30)
		c.Event("long_base_lists", 1)
	}
	for i, n := 0, nbase; i < n; i++ {
		s := c08RandomSpec(c, c08Patterns[c.Rng.Intn(len(c08Patterns))], dns)
		s.Badfilter = false
		canon[s.CanonKey()] = true
		base = append(base, s.Render(c.Rng))
	}
	if dns && c.Rng.Intn(2) == 0 {
		base = append(base, "1.2.3.4 ads.com", "::1 ads.com other.ads.com")
	}
	if !dns && c.Rng.Intn(3) == 0 {
		base = append(base, "@@||site.com^$"+[]string{"urlblock", "genericblock", "stealth", "document"}[c.Rng.Intn(4)])
	}

	// Extra rules: x1 and variations of it.
	// The extra rules are about ads.com like the base; one case in six they
	// have a pattern of their own with raw non-ASCII text in it (five ASCII
	// bytes, then a multi-byte character), and the request carries that text.
	xPattern, xURL, xHost := "||ads.com^", "http://ads.com/banner", "ads.com"
	if c.Rng.Intn(6) == 0 {
		if dns {
			xPattern, xHost = "||adsr-\u00fcnl\u00fc.com^", "adsr-\u00fcnl\u00fc.com"
		} else {
			k := c.Rng.Intn(3)
			xPattern = []string{"/ban/\u0440\u0435\u043a\u043b\u0430\u043c\u0430", "||ads.com/ban/\u00fcnl\u00fc", "/ads/\u5e7f\u544a/"}[k]
			xURL = []string{"http://ads.com/ban/\u0440\u0435\u043a\u043b\u0430\u043c\u0430.js", "http://ads.com/ban/\u00fcnl\u00fc?x=1", "http://ads.com/ads/\u5e7f\u544a/1.gif"}[k]
		}
		c.Event("extra_rules_with_raw_non_ascii_patterns", 1)
	}
	var x1 *gen.Spec
	for try := 0; try < 50 && (x1 == nil || canon[x1.CanonKey()]); try++ {
		x1 = c08RandomSpec(c, xPattern, dns)
	}
	if canon[x1.CanonKey()] {
		c.Inconclusive("could-not-make-distinct-rule")

		return
	}
	if !dns && len(x1.Domains) > 0 && c.Rng.Intn(6) == 0 {
		// A $domain list long enough for the line (and the line of the twin,
		// whose ",badfilter" comes last) to exceed the 4 KiB read buffers;
		// fillers in the polarity that changes nothing.
		pos := false
		for _, d := range x1.Domains {
			pos = pos || !d.Neg
		}
		for k, n := 0, []int{230, 420}[c.Rng.Intn(2)]; k < n; k++ {
			x1.Domains = append(x1.Domains, gen.Val{Name: "filler" + strconv.Itoa(k) + ".example", Neg: !pos})
		}
		c.Event("extra_rules_longer_than_4k", 1)
	}
	xs := []*gen.Spec{x1}
	canon[x1.CanonKey()] = true
	for i, k := 0, c.Rng.Intn(4); i < k; i++ {
		y, _ := c08Vary(c, xs[c.Rng.Intn(len(xs))], dns)
		if y == nil || canon[y.CanonKey()] {
			continue
		}
		canon[y.CanonKey()] = true
		xs = append(xs, y)
	}

	// Requests aimed at x1.
	var reqs []*gen.Req
	for try := 0; try < 12 && len(reqs) < 4; try++ {
		q := gen.TargetedReq(c.Rng, x1, "ads.com", 0)
		if dns {
			q = &gen.Req{HostnameReq: true, Host: xHost, DNSType: q.DNSType, ClientName: q.ClientName, ClientIP: q.ClientIP, Tags: q.Tags}
			if q.DNSType == 0 {
				q.DNSType = 1
			}
		} else {
			q.URL = xURL
			switch {
			case x1.Popup:
				q.Type = rules.TypeDocument
			case x1.Mp4:
				q.Type = rules.TypeMedia
			}
			if q.Source == "" || c.Rng.Intn(2) == 0 {
				q.Source = "http://site.com/"
			}
		}
		r1, err := rules.NewNetworkRule(x1.Render(nil), 1)
		if err != nil {
			c.Inconclusive("rule-rejected-by-parser")

			return
		}
		if r1.Match(q.Build()) || try >= 8 {
			reqs = append(reqs, q)
		}
	}

	type scenario struct {
		relation     string
		base, added  []string
		mustBeActive bool
		// first rule and its twin (R1 only): candidates for the first lines
		// of two different lists
		pair [2]string
	}
	var scs []scenario
	// R1: k rules with their twins.
	var added []string
	for _, x := range xs {
		t := x.Clone()
		t.Badfilter = true
		xt := x.Render(c.Rng)
		added = append(added, xt, t.Render(c.Rng))
		if c.Rng.Intn(4) == 0 {
			// The same rule more than once (lists overlap): one twin disables
			// every copy.
			added = append(added, xt)
			if c.Rng.Intn(2) == 0 {
				added = append(added, x.Render(c.Rng))
			}
			c.Event("extra_rules_present_more_than_once", 1)
		}
	}
	scs = append(scs, scenario{relation: fmt.Sprintf("add-%d-rules-with-twins", len(xs)), base: base, added: added, pair: [2]string{added[0], added[1]}})
	// R2: y differs from x in one aspect; x$badfilter must not touch y.
	for i := 0; i < 3; i++ {
		x := xs[c.Rng.Intn(len(xs))]
		y, aspect := c08Vary(c, x, dns)
		if y == nil {
			continue
		}
		// y must differ from everything else too, and x itself must not be in
		// the base (its twin would legitimately disable it).
		bx := x.Clone()
		bx.Badfilter = true
		b2 := append(append([]string(nil), base...), y.Render(c.Rng))
		scs = append(scs, scenario{relation: "badfilter-of-rule-differing-in-" + aspect, base: b2, added: []string{bx.Render(c.Rng)}})
		c.Event("r2_"+aspect, 1)
	}

	// The lists of the engines are string-backed, or (one case in four) files,
	// from which rules are read again when they are looked up.
	mkStorage := func(lines []string) *filterlist.RuleStorage { return util.Storage(util.Lines(lines)) }
	if c.Rng.Intn(4) == 0 {
		if dir, derr := os.MkdirTemp(filepath.Join(c.Env.VerifDir, ".work"), "c08f."); derr == nil {
			defer os.RemoveAll(dir)
			var opened []*filterlist.RuleStorage
			defer func() {
				for _, st := range opened {
					_ = st.Close()
				}
			}()
			mkStorage = func(lines []string) *filterlist.RuleStorage {
				fn := filepath.Join(dir, "l"+strconv.Itoa(len(opened))+".txt")
				if os.WriteFile(fn, []byte(util.ChopEOL(util.Lines(lines))), 0o644) == nil {
					if fl, ferr := filterlist.NewFileRuleList(1, fn, false); ferr == nil {
						if st, serr := filterlist.NewRuleStorage([]filterlist.RuleList{fl}); serr == nil {
							opened = append(opened, st)

							return st
						}
					}
				}

				return util.Storage(util.Lines(lines))
			}
			c.Event("cases_with_file_backed_lists", 1)
		}
	}
	// One case in four keeps the first added rule and its twin in two
	// different lists, each as the first line (same position, other list).
	twoLists := c.Rng.Intn(4) == 0
	for _, sc := range scs {
		ext := c08Insert(c, sc.base, sc.added)
		mkStorage := mkStorage
		if twoLists && sc.pair[0] != "" && sc.pair[0] != sc.pair[1] {
			one := mkStorage
			x, tw := sc.pair[0], sc.pair[1]
			mkStorage = func(lines []string) *filterlist.RuleStorage {
				l1 := []string{x}
				seenX, seenT := false, false
				for _, l := range lines {
					switch {
					case l == x && !seenX:
						seenX = true
					case l == tw && !seenT:
						seenT = true
					default:
						l1 = append(l1, l)
					}
				}
				if !seenX || !seenT {
					return one(lines)
				}

				return util.Storage(util.Lines(l1), util.Lines([]string{tw}))
			}
			c.Event("scenarios_with_rule_and_twin_as_first_lines_of_two_lists", 1)
		}
		c.NonTrivial(core.Hash64(append([]string{sc.relation}, ext...)...))
		for _, q := range reqs {
			req := q.Build()
			report := func(via, diff string) {
				c.Violation(via+":"+sc.relation, nil, c08Witness{sc.relation, via, sc.base, sc.added, ext, q, diff},
					"%s via %s: verdict changed (%s)\n base %v\n added %v\n request %+v", sc.relation, via, diff, sc.base, sc.added, *q)
			}
			// Path A: rule objects in list order (exact comparison).
			if dns {
				va := c08DNSVerdict(&urlfilter.DNSResult{NetworkRules: c08ParseMatching(sc.base, req)}, false, false)
				vb := c08DNSVerdict(&urlfilter.DNSResult{NetworkRules: c08ParseMatching(ext, req)}, false, false)
				ra, rb := rules.GetDNSBasicRule(c08ParseMatching(sc.base, req)), rules.GetDNSBasicRule(c08ParseMatching(ext, req))
				va.DNSRule, va.dnsRule, vb.DNSRule, vb.dnsRule = c08Text(ra), ra, c08Text(rb), rb
				c.Eval(1)
				if d := c08Compare(va, vb, true); d != "" {
					report("GetDNSBasicRule+DNSRewrites", d)
				}
			} else {
				var sa, sb []*rules.NetworkRule
				if q.Source != "" {
					sreq := rules.NewRequest(q.Source, "", rules.TypeDocument)
					sa, sb = c08ParseMatching(sc.base, sreq), c08ParseMatching(ext, sreq)
				}
				va := c08WebVerdict(rules.NewMatchingResult(c08ParseMatching(sc.base, req), sa))
				vb := c08WebVerdict(rules.NewMatchingResult(c08ParseMatching(ext, req), sb))
				c.Eval(1)
				if d := c08Compare(va, vb, true); d != "" {
					report("NewMatchingResult", d)
				}
			}
			// Path B: engines (equal up to priority ties).
			split := func(lines []string) []string {
				return []string{util.Lines(lines)}
			}
			_ = split
			if dns {
				ea := urlfilter.NewDNSEngine(mkStorage(sc.base))
				eb := urlfilter.NewDNSEngine(mkStorage(ext))
				dreq := &urlfilter.DNSRequest{Hostname: q.Host, DNSType: q.DNSType, ClientName: q.ClientName, ClientIP: q.ClientIP, SortedClientTags: q.Tags}
				ra, ma := ea.MatchRequest(dreq)
				rb, mb := eb.MatchRequest(dreq)
				c.Eval(1)
				if d := c08Compare(c08DNSVerdict(ra, ma, true), c08DNSVerdict(rb, mb, true), false); d != "" {
					report("DNSEngine.MatchRequest", d)
				}
				// badfilter rules never become a result
				for _, r := range rb.DNSRewrites() {
					if r.IsOptionEnabled(rules.OptionBadfilter) {
						report("DNSEngine.MatchRequest", "a $badfilter rule is returned by DNSRewrites(): "+r.RuleText)
					}
				}
				if rb.NetworkRule != nil && rb.NetworkRule.IsOptionEnabled(rules.OptionBadfilter) {
					report("DNSEngine.MatchRequest", "a $badfilter rule is the basic rule: "+rb.NetworkRule.RuleText)
				}
			} else {
				ea := urlfilter.NewEngine(mkStorage(sc.base))
				eb := urlfilter.NewEngine(mkStorage(ext))
				va, vb := c08WebVerdict(ea.MatchRequest(req)), c08WebVerdict(eb.MatchRequest(req))
				c.Eval(1)
				if d := c08Compare(va, vb, false); d != "" {
					report("Engine.MatchRequest", d)
				}
				if vb.resultRule != nil && vb.resultRule.IsOptionEnabled(rules.OptionBadfilter) {
					report("Engine.MatchRequest", "a $badfilter rule is the basic result: "+vb.Result)
				}
				na := urlfilter.NewNetworkEngine(mkStorage(sc.base))
				nb := urlfilter.NewNetworkEngine(mkStorage(ext))
				r1, _ := na.Match(req)
				r2, _ := nb.Match(req)
				c.Eval(1)
				if !c08Tied(r1, r2) {
					report("NetworkEngine.Match", fmt.Sprintf("%q vs %q", c08Text(r1), c08Text(r2)))
				}
			}
		}
		if c.WantSample() && len(sc.added) >= 4 && c.Rng.Intn(20) == 0 {
			c.Sample(map[string]any{"relation": sc.relation, "base": sc.base, "added": sc.added, "requests": len(reqs)})
		}
	}
	_ = netip.Addr{}
}

func init() {
	sizes := map[core.Tier]int{core.Quick: 8000, core.Thorough: 300000}
	core.Register(&core.Prop{
		ID:    "C08",
		Level: "exploration",
		Rule: "metamorphic: base lists of 0..6 (one in twenty: 13..42) rules (+ hosts lines / referrer exceptions), k = 1..4 extra rules that are mutually similar (variations of one rule in one aspect) added with their $badfilter twins at random positions, " +
			"and rules y differing from x in exactly one of {exception, pattern, content type, third-party, important, $domain, $denyallow, $dnstype, $ctag, $client, $dnsrewrite, match-case} added with x$badfilter; " +
			"one extra rule in four is added two or three times (one twin disables every copy); " +
			"one case in six the extra rules have a pattern with raw non-ASCII text (five ASCII bytes, then a multi-byte character) and the requests carry it; " +
			"one case in four builds the engines over file-backed lists; extra rules with $popup / $empty / $mp4, with $domain lists of 230 / 420 entries, and a future-modifier aspect ($to, $method, $header, $app: rejected today); " +
			"verdicts before/after are compared through rule objects in list order (NewMatchingResult, GetDNSBasicRule, DNSRewrites: exact texts) and through Engine, NetworkEngine and DNSEngine (equal up to priority ties); non-trivial = every extended list; distinct by relation and list",
		Assumptions: []string{
			"twins keep the value order inside each modifier (a permuted $domain list is a declared don't-care)",
			"through engines the selected rule may differ within a priority tie because adding rules legitimately changes index buckets; IsHigherPriority (C07) decides what a tie is",
		},
		Cases: func(t core.Tier) int { return sizes[t] },
		Run:   c08Run,
	})
}
