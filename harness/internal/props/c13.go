package props

import (
	"fmt"
	"math"
	"net/netip"
	"os"
	"path/filepath"
	"strconv"
	"strings"

	"github.com/AdguardTeam/urlfilter"
	"github.com/AdguardTeam/urlfilter/filterlist"
	"github.com/AdguardTeam/urlfilter/rules"

	"verifharness/internal/core"
	"verifharness/internal/gen"
	"verifharness/internal/util"
)

// C13: query results are a pure function of the lists and the request.

var c13BaseHosts = []string{"ads.com", "sub.ads.com", "tracker.io", "example.org", "site.com", "printer", "1.2.3.4", "::1", "bce.ca", "abc.cafe.de", gen.DeepHost}

// c13Hosts is the host vocabulary of the current case: the base names plus,
// in one case of three, a group of names whose 32-bit hashes collide.
var c13Hosts = c13BaseHosts

func c13List(c *core.Ctx) []string {
	var lines []string
	n := 15 + c.Rng.Intn(50)
	for len(lines) < n {
		h := c13Hosts[c.Rng.Intn(len(c13Hosts))]
		switch r := c.Rng.Intn(16); {
		case r < 5:
			s := &gen.Spec{Exception: c.Rng.Intn(4) == 0, Pattern: strings.ReplaceAll([]string{"||HOST^", "||HOST/ads", "HOST^", "|HOST|", "/banner", "||HOST"}[c.Rng.Intn(6)], "HOST", h)}
			gen.AddRandomMods(c.Rng, s, gen.AllMods, 0.2)
			lines = append(lines, s.Render(c.Rng))
			if c.Rng.Intn(6) == 0 {
				t := s.Clone()
				t.Badfilter = true
				lines = append(lines, t.Render(c.Rng))
			}
		case r < 8:
			// Per-request fields: the leak detectors.
			s := &gen.Spec{Pattern: "||" + h + "^", Exception: c.Rng.Intn(5) == 0}
			gen.AddRandomMods(c.Rng, s, gen.ModKinds{DNSType: true, CTag: true, Client: true, Important: true, DenyAllow: true}, 0.5)
			lines = append(lines, s.Render(c.Rng))
		case r < 9 || (r == 9 && c.Rng.Intn(2) == 0):
			s := c09Full[c.Rng.Intn(len(c09Full))]
			lines = append(lines, strings.Replace(s.text(), "example.com", h, 1))
		case r == 9:
			// Rules whose $denyallow verdict depends on whether the queried name
			// is an address.
			lines = append(lines, []string{"*$denyallow=com", "||1.2.3.4^$denyallow=a.com", "|1.2.3.4|$denyallow=a.com,important", "*$denyallow=org|io,dnstype=A", "@@*$denyallow=example.org"}[c.Rng.Intn(5)])
		case r == 10:
			lines = append(lines, []string{"/[/", "/(?!x)ads/", "/a{2000}b{2000}/", "/ads(/$script", "/\\p{Nope}/"}[c.Rng.Intn(5)])
		case r == 11:
			lines = append(lines, c05RegexGrammar(c.Rng))
		case r == 12:
			lines = append(lines, c18IPs[c.Rng.Intn(len(c18IPs))]+" "+h, h)
		case r == 13:
			lines = append(lines, c15Rule(c))
		case r == 14 && c.Rng.Intn(2) == 0:
			// Referrer-level exceptions narrower than the host.
			lines = append(lines, []string{"@@||site.com/app/$urlblock", "@@|https://site.com^$genericblock", "@@||site.com/other$document", "@@||site.com/app/$genericblock,important"}[c.Rng.Intn(4)])
		case r == 14:
			lines = append(lines, "@@||site.com^$"+[]string{"urlblock", "genericblock", "document", "elemhide", "stealth", "generichide,jsinject"}[c.Rng.Intn(6)])
		default:
			lines = append(lines, "! c", "")
		}
	}

	if c.Rng.Intn(3) == 0 {
		// Several rules that live in the $domain index (short literals) and
		// match the same request: their order in the answer is part of it.
		for _, l := range []string{"/ad^$domain=site.com", "-ad-$domain=site.com|ads.com", "ads$domain=site.com", ".js$domain=site.com|example.org", "/x$domain=~other.org|site.com", "@@.js$domain=site.com", "ad$domain=site.com,important"} {
			if c.Rng.Intn(3) > 0 {
				j := c.Rng.Intn(len(lines) + 1)
				lines = append(lines[:j], append([]string{l}, lines[j:]...)...)
			}
		}
		c.Event("lists_with_several_domain_index_rules", 1)
	}
	if c.Rng.Intn(3) == 0 {
		// A cosmetic-heavy list: several unconditional generic rules (3..7, so
		// that slices built from them have spare capacity), generic rules that
		// depend on the host through an exclusion or an exception, and
		// domain-specific ones.
		var cos []string
		for i, k := 0, 3+c.Rng.Intn(5); i < k; i++ {
			cos = append(cos, fmt.Sprintf("##.g%d", i))
		}
		cos = append(cos, "~example.org##.not-on-example", "~a.com,~evil.org##.not-on-a", "##.excepted", "a.com#@#.excepted", "example.org#@#.excepted",
			"example.org##.s1", "a.com,b.a.com##.s2", "example.*##.s3", "sub.example.org##.s4")
		for _, l := range cos {
			j := c.Rng.Intn(len(lines) + 1)
			lines = append(lines[:j], append([]string{l}, lines[j:]...)...)
		}
		c.Event("cosmetic_heavy_lists", 1)
	}

	return lines
}

// c13Op is one operation of a history.
type c13Op struct {
	Kind string   `json:"kind"` // dns, web, all, cosmetic, derive
	Req  *gen.Req `json:"request,omitempty"`
	Host string   `json:"host,omitempty"`
	Flag int      `json:"flags,omitempty"`
}

func (o c13Op) key() string {
	switch o.Kind {
	case "cosmetic":
		return fmt.Sprintf("cos|%s|%d", o.Host, o.Flag)
	default:
		return o.Kind + "|" + o.Req.Key()
	}
}

func c13RuleSnap(r *rules.NetworkRule) string {
	if r == nil {
		return "<nil>"
	}
	d := ""
	if dr := r.DNSRewrite; dr != nil {
		v := ""
		switch x := dr.Value.(type) {
		case nil:
			v = "nil"
		case fmt.Stringer:
			v = x.String()
		case *rules.DNSMX:
			v = fmt.Sprintf("MX%+v", *x)
		case *rules.DNSSRV:
			v = fmt.Sprintf("SRV%+v", *x)
		case *rules.DNSSVCB:
			v = fmt.Sprintf("SVCB%+v", *x)
		default:
			v = fmt.Sprintf("%#v", x)
		}
		d = fmt.Sprintf("cname=%s rcode=%d rr=%d value=%s", dr.NewCNAME, dr.RCode, dr.RRType, v)
	}

	return fmt.Sprintf("%s|%v|%d|%s|%s", r.RuleText, r.Whitelist, r.FilterListID, r.Shortcut, d)
}

func c13RulesSnap(rs []*rules.NetworkRule) string {
	var sb strings.Builder
	for _, r := range rs {
		sb.WriteString(c13RuleSnap(r))
		sb.WriteByte('\n')
	}

	return sb.String()
}

func c13HostsSnap(hs []*rules.HostRule) string {
	var sb strings.Builder
	for _, h := range hs {
		if h == nil {
			sb.WriteString("<nil>\n")

			continue
		}
		fmt.Fprintf(&sb, "%s|%v|%v|%d\n", h.RuleText, h.IP, h.Hostnames, h.FilterListID)
	}

	return sb.String()
}

// c13Kept is a returned object with the snapshot taken when it was returned.
type c13Kept struct {
	op    int
	what  string
	snap  func() string
	first string
}

func c13DNSSnap(res *urlfilter.DNSResult, matched bool) string {
	return "rule:" + c13RuleSnap(res.NetworkRule) + "\nall:" + c13RulesSnap(res.NetworkRules) + "v4:" + c13HostsSnap(res.HostRulesV4) + "v6:" + c13HostsSnap(res.HostRulesV6) + "matched:" + boolStr(matched)
}

func c13WebSnap(mr *rules.MatchingResult) string {
	return "basic:" + c13RuleSnap(mr.BasicRule) + "\ndoc:" + c13RuleSnap(mr.DocumentRule) + "\nstealth:" + c13RuleSnap(mr.StealthRule) +
		"\ncsp:" + c13RulesSnap(mr.CspRules) + "cookie:" + c13RulesSnap(mr.CookieRules) + "replace:" + c13RulesSnap(mr.ReplaceRules)
}

func c13CosSnap(r urlfilter.CosmeticResult) string {
	return fmt.Sprintf("%q|%q|%q|%q", r.ElementHiding.Generic, r.ElementHiding.Specific, r.ElementHiding.GenericExtCSS, r.ElementHiding.SpecificExtCSS)
}

type c13Engines struct {
	dns     *urlfilter.DNSEngine
	eng     *urlfilter.Engine
	net     *urlfilter.NetworkEngine
	storage []*filterlist.RuleStorage
}

func (e *c13Engines) close() {
	seen := map[*filterlist.RuleStorage]bool{}
	for _, s := range e.storage {
		if !seen[s] {
			seen[s] = true
			_ = s.Close()
		}
	}
}

// c13Extra is the content of an optional second list (string-backed); empty =
// none.  c13ExtraID is its list id (ids congruent modulo small powers of two
// with the first list's id 0 are the interesting ones).
var (
	c13Extra   string
	c13ExtraID = 1
)

func c13Build(content string, file string, shared bool) *c13Engines {
	mk := func() *filterlist.RuleStorage {
		var ls []filterlist.RuleList
		if file != "" {
			fl, err := filterlist.NewFileRuleList(0, file, false)
			if err != nil {
				panic(err)
			}
			ls = append(ls, fl)
		} else {
			ls = append(ls, &filterlist.StringRuleList{ID: 0, RulesText: content})
		}
		if c13Extra != "" {
			ls = append(ls, &filterlist.StringRuleList{ID: c13ExtraID, RulesText: c13Extra})
		}
		s, err := filterlist.NewRuleStorage(ls)
		if err != nil {
			panic(err)
		}

		return s
	}
	e := &c13Engines{}
	s1 := mk()
	s2, s3 := s1, s1
	if !shared {
		s2, s3 = mk(), mk()
	}
	// With shared=true all three engines sit on ONE storage, so the rule
	// cache and the lazily compiled rule objects are shared between them.
	e.storage = []*filterlist.RuleStorage{s1, s2, s3}
	e.dns = urlfilter.NewDNSEngine(s1)
	e.eng = urlfilter.NewEngine(s2)
	e.net = urlfilter.NewNetworkEngine(s3)

	return e
}

// c13Exec runs one query operation on the engines and returns the snapshot of
// the answer plus the objects to keep.
func c13Exec(e *c13Engines, o c13Op, opIdx int) (snap string, kept []*c13Kept, dres *urlfilter.DNSResult, mres *rules.MatchingResult, all []*rules.NetworkRule) {
	switch o.Kind {
	case "dns":
		q := o.Req
		res, matched := e.dns.MatchRequest(&urlfilter.DNSRequest{Hostname: q.Host, DNSType: q.DNSType, ClientName: q.ClientName, ClientIP: q.ClientIP, SortedClientTags: q.Tags})
		snap = c13DNSSnap(res, matched) + "\nrewrites:" + c13RulesSnap(res.DNSRewrites()) + "rewritesAll:" + c13RulesSnap(res.DNSRewritesAll())
		kept = append(kept, &c13Kept{op: opIdx, what: "DNSResult of " + o.key(), snap: func() string { return c13DNSSnap(res, matched) }})
		dres = res
	case "web":
		mr := e.eng.MatchRequest(o.Req.Build())
		snap = c13WebSnap(mr) + "\nresult:" + c13RuleSnap(mr.GetBasicResult()) + fmt.Sprintf("\ncosmetic:%d", mr.GetCosmeticOption())
		kept = append(kept, &c13Kept{op: opIdx, what: "MatchingResult of " + o.key(), snap: func() string { return c13WebSnap(mr) }})
		mres = mr
	case "all":
		rs := e.net.MatchAll(o.Req.Build())
		snap = c13RulesSnap(rs)
		kept = append(kept, &c13Kept{op: opIdx, what: "MatchAll slice of " + o.key(), snap: func() string { return c13RulesSnap(rs) }})
		all = rs
	case "cosmetic":
		r := e.eng.GetCosmeticResult(o.Host, rules.CosmeticOption(o.Flag))
		snap = c13CosSnap(r)
		kept = append(kept, &c13Kept{op: opIdx, what: "CosmeticResult of " + o.key(), snap: func() string { return c13CosSnap(r) }})
	}
	for _, k := range kept {
		k.first = k.snap()
	}

	return snap, kept, dres, mres, all
}

// c13Big is one long history over a large list: more rules are retrieved than
// any plausible bound of a cache (1 400 of 1 500 in the quick tier, 70 000 of
// 75 000 in the thorough one), by queries whose name or URL contains the key
// of one rule twice with the key of another rule in between.  Every answer is
// known: exactly the one rule that matches, once.
func c13Big(c *core.Ctx, n int) {
	var sb strings.Builder
	for i := 0; i < n; i++ {
		fmt.Fprintf(&sb, "||h%d.big.example^\n", i)
	}
	dns := urlfilter.NewDNSEngine(util.Storage(sb.String()))
	net := urlfilter.NewNetworkEngine(util.Storage(sb.String()))
	perm := c.Rng.Perm(n)
	for k := 0; k+1 < len(perm)*14/15; {
		a, b := perm[k], perm[k+1]
		k += 2
		host := fmt.Sprintf("h%d.big.example.cdn.h%d.big.example.x.h%d.big.example", a, b, a)
		url := fmt.Sprintf("http://h%d.big.example/p/h%d.big.example/q/h%d.big.example", a, b, a)
		if c.Rng.Intn(3) == 0 {
			// (one new rule only, so that the cache fills at varying points)
			host, url = fmt.Sprintf("h%d.big.example", a), fmt.Sprintf("http://h%d.big.example/", a)
			k--
		}
		want := fmt.Sprintf("[||h%d.big.example^]", a)
		var got1, got2 string
		w := map[string]any{"rules": n, "queries_so_far": k, "host": host, "url": url}
		if c.Guard("big-history", nil, w, func() {
			res, _ := dns.MatchRequest(&urlfilter.DNSRequest{Hostname: host, DNSType: 1})
			got1 = fmt.Sprint(util.Texts(res.NetworkRules))
			got2 = fmt.Sprint(util.Texts(net.MatchAll(rules.NewRequest(url, "", rules.TypeScript))))
		}) {
			return
		}
		c.Eval(2)
		if got1 != want {
			c.Violation("answer-depends-on-history:dns", nil, w, "after %d queries over %d rules DNSEngine.MatchRequest(%s).NetworkRules = %s, a fresh engine answers %s", k, n, host, got1, want)

			return
		}
		if got2 != want {
			c.Violation("answer-depends-on-history:all", nil, w, "after %d queries over %d rules NetworkEngine.MatchAll(%s) = %s, a fresh engine answers %s", k, n, url, got2, want)

			return
		}
	}
	c.Event("big_history_rules_retrieved", int64(n*14/15))
	c.NonTrivial(core.Hash64("big", strconv.Itoa(n)))
}

func c13Run(c *core.Ctx, idx int) {
	if idx == 1 {
		c13Big(c, map[core.Tier]int{core.Quick: 1500, core.Thorough: 75000}[c.Env.Tier])

		return
	}
	c13Hosts = c13BaseHosts
	if len(gen.HostGroups) > 0 && c.Rng.Intn(3) == 0 {
		g := gen.HostGroups[c.Rng.Intn(len(gen.HostGroups))]
		c13Hosts = append(append([]string(nil), c13BaseHosts...), g[:min(len(g), 3)]...)
		c.Event("histories_with_hash_colliding_host_names", 1)
	}
	lines := c13List(c)
	if len(c13Hosts) > len(c13BaseHosts) {
		// Hosts lines for some of the colliding names, with different addresses.
		for i, h := range c13Hosts[len(c13BaseHosts):] {
			if i == 0 || c.Rng.Intn(2) == 0 {
				lines = append(lines, []string{"0.0.0.0 ", "10.0.0.1 ", "::1 "}[i%3]+h)
			}
		}
		lines = util.Shuffle(c.Rng, lines)
	}
	if c.Rng.Intn(5) == 0 {
		// A list without a single rule that looks at the client or the record
		// type (what an engine may do for such lists is a configuration of its
		// own).
		var plain []string
		for _, l := range lines {
			if !strings.Contains(l, "client=") && !strings.Contains(l, "ctag=") && !strings.Contains(l, "dnstype=") {
				plain = append(plain, l)
			}
		}
		if len(plain) >= 5 {
			lines = plain
			c.Event("histories_over_lists_without_per_client_rules", 1)
		}
	}
	lookalikes := c.Rng.Intn(4) == 0
	if lookalikes {
		// $domain lists of four and more entries, asked from the listed sites,
		// their subdomains and sites whose names merely end in a listed name.
		lines = append(lines, "||ads.com^$domain=site.com|a.example|b.example|c.example", "@@||tracker.io^$domain=~site.com|~a.example|~b.example|~c.example|~d.example",
			"/banner$domain=x.example|y.example|site.com|z.example|w.example", "||sub.ads.com^$script,domain=a.example|b.example|c.example|site.com")
		lines = util.Shuffle(c.Rng, lines)
		c.Event("histories_with_sources_that_end_in_a_listed_domain", 1)
	}
	tenants := c.Rng.Intn(4) == 0
	if tenants {
		lines = append(lines, "||s3.amazonaws.com^$third-party", "||amazonaws.com^$~third-party", "/ads.js$third-party,script", "||cloud.fedoraproject.org^$third-party", "||fedoraproject.org^$first-party")
		lines = util.Shuffle(c.Rng, lines)
		c.Event("histories_with_tenants_of_a_nested_public_suffix", 1)
	}
	// Rules whose $client value mixes names with addresses or networks.
	type mixedClient struct {
		host, name      string
		inside, outside netip.Addr
	}
	var mixed []mixedClient
	if c.Rng.Intn(3) == 0 {
		for i, n := 0, 1+c.Rng.Intn(2); i < n; i++ {
			m := mixedClient{host: c13Hosts[c.Rng.Intn(len(c13Hosts))], name: []string{"Mom", "kids", "cafe"}[c.Rng.Intn(3)]}
			net := []string{"192.168.3.0/24", "10.1.0.0/16", "fe01::/64", "172.16.0.1"}[c.Rng.Intn(4)]
			m.inside = map[string]netip.Addr{"192.168.3.0/24": netip.MustParseAddr("192.168.3.7"), "10.1.0.0/16": netip.MustParseAddr("10.1.2.3"), "fe01::/64": netip.MustParseAddr("fe01::1"), "172.16.0.1": netip.MustParseAddr("172.16.0.1")}[net]
			m.outside = []netip.Addr{netip.MustParseAddr("8.8.8.8"), netip.MustParseAddr("192.168.4.1"), netip.MustParseAddr("2001:db8::5")}[c.Rng.Intn(3)]
			neg := []string{"", "~"}[c.Rng.Intn(2)]
			lines = append(lines, []string{"||", "@@||"}[c.Rng.Intn(2)]+m.host+"^$client="+neg+m.name+"|"+neg+net)
			mixed = append(mixed, m)
		}
		lines = util.Shuffle(c.Rng, lines)
		c.Event("histories_with_names_and_addresses_in_one_client_value", 1)
	}
	if c.Rng.Intn(2) == 0 {
		// Longer than the 4 KiB read block, with rules straddling block
		// boundaries (what is read depends on what was read before).
		lines = gen.PadToStraddle(c.Rng, lines, 1+c.Rng.Intn(3))
		c.Event("lists_with_rules_straddling_block_boundaries", 1)
	}
	content := util.Lines(lines)
	// One history in three runs over two lists (the second one repeats some
	// rules of the first and starts at the same offset).
	c13Extra = ""
	if c.Rng.Intn(3) == 0 {
		extra := c13List(c)
		extra = append(extra[:min(len(extra), 12)], lines[c.Rng.Intn(len(lines))], lines[c.Rng.Intn(len(lines))])
		c13Extra = util.Lines(util.Shuffle(c.Rng, extra))
		c13ExtraID = []int{1, 16, 256, 1 << 16, -16, -1, math.MinInt32, math.MaxInt32}[c.Rng.Intn(8)]
		c.Event("histories_over_two_lists", 1)
	}
	file := ""
	if c.Rng.Intn(2) == 0 {
		dir, err := os.MkdirTemp(filepath.Join(c.Env.VerifDir, ".work"), "c13f.")
		if err != nil {
			c.Inconclusive("cannot create scratch directory")

			return
		}
		defer os.RemoveAll(dir)
		file = filepath.Join(dir, "list.txt")
		if err = os.WriteFile(file, []byte(util.ChopEOL(content)), 0o644); err != nil {
			c.Inconclusive("cannot write scratch file")

			return
		}
	}
	// A small set of distinct requests, heavily repeated.
	var pool []c13Op
	for i := 0; i < 10; i++ {
		q := gen.RandomReq(c.Rng, 1)
		q.Host = c13Hosts[c.Rng.Intn(len(c13Hosts))]
		if c.Rng.Intn(3) == 0 {
			// Same host without any client data right after one with it.
			q.ClientName, q.Tags, q.DNSType = "", nil, 0
			if c.Rng.Intn(2) == 0 {
				q.ClientIP = netip.Addr{}
			}
		}
		pool = append(pool, c13Op{Kind: "dns", Req: q})
	}
	for _, h := range c13Hosts[len(c13BaseHosts):] {
		pool = append(pool, c13Op{Kind: "dns", Req: &gen.Req{HostnameReq: true, Host: h, DNSType: 1}})
	}
	for _, m := range mixed {
		// Several devices behind one address, a device that is renamed, an
		// unnamed one: the same host asked from the same address under
		// different names, and the same name from different addresses.
		for _, name := range []string{m.name, "", "Zed", m.name} {
			for _, ip := range []netip.Addr{m.outside, m.inside} {
				if c.Rng.Intn(3) > 0 {
					pool = append(pool, c13Op{Kind: "dns", Req: &gen.Req{HostnameReq: true, Host: m.host, DNSType: 1, ClientName: name, ClientIP: ip}})
				}
			}
		}
	}
	for i := 0; i < 8; i++ {
		q := gen.RandomReq(c.Rng, 0)
		q.URL = "http://" + c13Hosts[c.Rng.Intn(len(c13Hosts))] + []string{"/", "/ads/x.js", "/banner", "/ad/x-ad-/ads.js"}[c.Rng.Intn(4)]
		if c.Rng.Intn(2) == 0 {
			q.Source = []string{"http://site.com/", "http://site.com/app/page", "http://site.com/other", "https://site.com/app/", "https://site.com/"}[c.Rng.Intn(5)]
		}
		pool = append(pool, c13Op{Kind: []string{"web", "all"}[c.Rng.Intn(2)], Req: q})
	}
	if lookalikes {
		for i := 0; i < 10; i++ {
			src := []string{"site.com", "badsite.com", "mysite.com", "www.site.com", "xa.example", "a.example", "site.com.evil.org", "c.example"}[c.Rng.Intn(8)]
			u := "http://" + []string{"ads.com", "tracker.io", "sub.ads.com"}[c.Rng.Intn(3)] + []string{"/banner", "/", "/ads/x.js"}[c.Rng.Intn(3)]
			pool = append(pool, c13Op{Kind: []string{"web", "all"}[c.Rng.Intn(2)], Req: &gen.Req{URL: u, Source: "http://" + src + "/", Type: rules.TypeScript}})
		}
	}
	if tenants {
		// Sites that are tenants of a public suffix nested below a registrable
		// domain, the parent itself, and sites directly under the parent, asking
		// each other; host names of the same families as DNS queries in between.
		fam := [][]string{
			{"bucket-a.s3.amazonaws.com", "bucket-b.s3.amazonaws.com", "status.amazonaws.com", "amazonaws.com", "s3.amazonaws.com"},
			{"x.cloud.fedoraproject.org", "y.cloud.fedoraproject.org", "www.fedoraproject.org", "fedoraproject.org"},
		}[c.Rng.Intn(2)]
		for i := 0; i < 8; i++ {
			u, s := fam[c.Rng.Intn(len(fam))], fam[c.Rng.Intn(len(fam))]
			pool = append(pool, c13Op{Kind: []string{"web", "all"}[c.Rng.Intn(2)], Req: &gen.Req{URL: "https://" + u + "/ads.js", Source: "https://" + s + "/", Type: rules.TypeScript}})
			if i%3 == 0 {
				pool = append(pool, c13Op{Kind: "dns", Req: &gen.Req{HostnameReq: true, Host: u, DNSType: 1}})
			}
		}
	}
	for i := 0; i < 4; i++ {
		pool = append(pool, c13Op{Kind: "cosmetic", Host: c15Hostnames[c.Rng.Intn(len(c15Hostnames))], Flag: c.Rng.Intn(8)})
	}
	for i := 0; i < 4; i++ {
		// Hosts on which the host-dependent generic rules differ, everything enabled.
		pool = append(pool, c13Op{Kind: "cosmetic", Host: []string{"example.org", "a.com", "sub.example.org", "unrelated.net", "b.a.com", "evil.org"}[c.Rng.Intn(6)], Flag: 7})
	}

	shared := c.Rng.Intn(2) == 0
	if shared {
		c.Event("histories_with_one_shared_storage", 1)
	}
	under := c13Build(content, file, shared)
	defer under.close()
	fresh := map[string]string{}
	freshAnswer := func(o c13Op) string {
		if v, ok := fresh[o.key()]; ok {
			return v
		}
		e := c13Build(content, file, false)
		defer e.close()
		s, _, _, _, _ := c13Exec(e, o, -1)
		fresh[o.key()] = s

		return s
	}

	nops := 50 + c.Rng.Intn(350)
	if c.Env.Tier == core.Quick {
		nops = 40 + c.Rng.Intn(120)
	}
	var kept []*c13Kept
	var dnsResults []*urlfilter.DNSResult
	var webResults []*rules.MatchingResult
	var slices [][]*rules.NetworkRule
	var hist []string
	for i := 0; i < nops; i++ {
		var o c13Op
		derive := c.Rng.Intn(4) == 0 && len(dnsResults)+len(webResults)+len(slices) > 0
		if derive {
			// Derived computations on OLD results.
			derivePanicked := c.Guard("derived-computation-on-old-result", nil, map[string]any{"list": lines, "second_list": c13Extra, "second_list_id": c13ExtraID, "history": hist}, func() {
				switch k := c.Rng.Intn(3); {
				case k == 0 && len(dnsResults) > 0:
					r := dnsResults[c.Rng.Intn(len(dnsResults))]
					_ = r.DNSRewrites()
					_ = r.DNSRewritesAll()
					_ = rules.GetDNSBasicRule(r.NetworkRules)
					hist = append(hist, "derive:DNSRewrites/DNSRewritesAll/GetDNSBasicRule on an old DNSResult")
				case k == 1 && len(webResults) > 0:
					r := webResults[c.Rng.Intn(len(webResults))]
					_ = r.GetBasicResult()
					_ = r.GetCosmeticOption()
					hist = append(hist, "derive:GetBasicResult/GetCosmeticOption on an old MatchingResult")
				case len(slices) > 0:
					a := slices[c.Rng.Intn(len(slices))]
					b := slices[c.Rng.Intn(len(slices))]
					mr := rules.NewMatchingResult(a, b)
					_ = mr.GetBasicResult()
					_ = rules.GetDNSBasicRule(a)
					hist = append(hist, "derive:NewMatchingResult/GetDNSBasicRule on old MatchAll slices")
				default:
					derive = false
				}
			})
			if derivePanicked {
				return
			}
		}
		if !derive {
			o = pool[c.Rng.Intn(len(pool))]
			hist = append(hist, o.key())
			want := freshAnswer(o)
			var got string
			var ks []*c13Kept
			var dres *urlfilter.DNSResult
			var mres *rules.MatchingResult
			var all []*rules.NetworkRule
			w := map[string]any{"list": lines, "second_list": c13Extra, "second_list_id": c13ExtraID, "history": hist, "file_backed": file != ""}
			if c.Guard("query", nil, w, func() { got, ks, dres, mres, all = c13Exec(under, o, i) }) {
				return
			}
			c.Eval(1)
			if got != want {
				c.Violation("answer-depends-on-history:"+o.Kind, nil, map[string]any{"list": lines, "second_list": c13Extra, "second_list_id": c13ExtraID, "history": hist, "file_backed": file != "", "got": got, "fresh": want},
					"operation %d (%s) after %d earlier operations answers differently from a fresh engine:\n got:\n%s\n fresh:\n%s", i, o.key(), i, got, want)

				return
			}
			kept = append(kept, ks...)
			if dres != nil {
				dnsResults = append(dnsResults, dres)
				if len(dres.NetworkRules) > 0 {
					slices = append(slices, dres.NetworkRules)
				}
			}
			if mres != nil {
				webResults = append(webResults, mres)
			}
			if all != nil {
				slices = append(slices, all)
			}
			if len(kept) > 40 {
				kept = kept[len(kept)-40:]
			}
		}
		// Earlier result objects must be unchanged.
		for _, k := range kept {
			c.Eval(1)
			if now := k.snap(); now != k.first {
				c.Violation("earlier-result-changed", nil, map[string]any{"list": lines, "second_list": c13Extra, "second_list_id": c13ExtraID, "history": hist, "object": k.what, "before": k.first, "after": now},
					"%s (returned by operation %d) changed after operation %d (%s):\n before:\n%s\n after:\n%s", k.what, k.op, i, hist[len(hist)-1], k.first, now)

				return
			}
		}
	}
	c.NonTrivial(core.Hash64(append([]string{fmt.Sprint(nops)}, lines...)...))
	c.Event("operations", int64(nops))
	c.Event("distinct_requests_memoised", int64(len(fresh)))
	if file != "" {
		c.Event("file_backed_histories", 1)
	}
	if c.WantSample() && c.Rng.Intn(20) == 0 {
		c.Sample(map[string]any{"rules": len(lines), "operations": nops, "history_head": hist[:min(8, len(hist))], "file_backed": file != ""})
	}
}

func init() {
	sizes := map[core.Tier]int{core.Quick: 1600, core.Thorough: 60000}
	core.Register(&core.Prop{
		ID:    "C13",
		Level: "exploration",
		Rule: "per case one list of 15..65 lines (rules with per-request modifiers $client/$ctag/$dnstype, $dnsrewrite rules and exceptions, badfilter twins, regexps that do not compile, cosmetic rules, hosts lines, referrer-level exceptions), String- or File-backed, and one history of 40..160 (thorough 50..400) operations drawn with heavy repetition from 26 distinct DNS / web / MatchAll / cosmetic queries (consecutive DNS queries with and without client name, address, tags, record type) interleaved with DNSRewrites, DNSRewritesAll, GetBasicResult, GetCosmeticOption, GetDNSBasicRule and NewMatchingResult on OLD results; " +
			"one history in three has rules whose $client value mixes names and networks, asked from one address under several names and from several addresses under one name; " +
			"one history in four has tenants of nested public suffixes (s3.amazonaws.com, cloud.fedoraproject.org), their parents and $third-party rules; " +
			"oracle: every answer == the answer of a fresh engine over the same bytes (memoised per distinct query), and every kept result object re-snapshotted after every later operation == its snapshot at return; plus one long history over 1 500 (thorough 75 000) rules in which nearly all of them are retrieved by queries that contain one rule's key twice; non-trivial = every history; distinct by list and length",
		Assumptions: []string{
			"snapshots cover the exported state of results and rules (texts, flags, list ids, shortcut, rewrite values, slice contents and order)",
		},
		Setup: func(*core.Env) { gen.Collisions() },
		Cases: func(t core.Tier) int { return sizes[t] },
		Run:   c13Run,
	})
}
