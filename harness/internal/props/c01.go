package props

import (
	"math"
	"os"
	"path/filepath"
	"strconv"
	"strings"
	"sync"

	"github.com/AdguardTeam/urlfilter"
	"github.com/AdguardTeam/urlfilter/filterlist"
	"github.com/AdguardTeam/urlfilter/rules"

	"verifharness/internal/core"
	"verifharness/internal/gen"
	"verifharness/internal/mon"
	"verifharness/internal/util"
)

// C01: network engine lookup is equivalent to a linear scan of all rules.

type c01Spec struct {
	spec  *gen.Spec
	phost string
}

// c01Pool generates the rule lines of one case and the specs behind the
// spec-based ones (for request targeting).
// c01ForceCrowd, when positive, makes c01Pool add a crowd of that size (one
// thorough case has more rules under one window than a 16-bit counter holds).
var c01ForceCrowd int

func c01Pool(c *core.Ctx, maxRules int) (lines []string, specs []c01Spec) {
	n := 20 + c.Rng.Intn(maxRules-20)
	restr := func(s *gen.Spec) {
		switch c.Rng.Intn(3) {
		case 0:
			s.CTags = []gen.Val{{Name: gen.CTagValues[c.Rng.Intn(len(gen.CTagValues))]}}
		case 1:
			s.Clients = []gen.Client{gen.ClientNames[c.Rng.Intn(len(gen.ClientNames))]}
		default:
			s.DenyAllow = []string{gen.DenyAllowValues[c.Rng.Intn(len(gen.DenyAllowValues))]}
		}
	}
	for len(lines) < n {
		switch r := c.Rng.Intn(20); {
		case r < 8:
			s, ph := gen.RandomMaskSpec(c.Rng, gen.AllMods, 0.2)
			lines = append(lines, s.Render(c.Rng))
			specs = append(specs, c01Spec{s, ph})
		case r < 10:
			// Rule whose shortcut is one member of a colliding window group.
			g := gen.WindowGroups[c.Rng.Intn(len(gen.WindowGroups))]
			s := &gen.Spec{Pattern: g[c.Rng.Intn(len(g))] + []string{"", "^", "*x", "|"}[c.Rng.Intn(4)]}
			gen.AddRandomMods(c.Rng, s, gen.AllMods, 0.1)
			lines = append(lines, s.Render(c.Rng))
			specs = append(specs, c01Spec{s, ""})
		case r < 13:
			// Short shortcut + $domain: the domain index.
			s := &gen.Spec{Pattern: []string{"ad", "/x", "a", "", "*", "js", "=1", "/ads", "^ad^"}[c.Rng.Intn(9)]}
			nd := 1 + c.Rng.Intn(3)
			for i := 0; i < nd; i++ {
				var d string
				if c.Rng.Intn(2) == 0 {
					g := gen.DomainGroups[c.Rng.Intn(len(gen.DomainGroups))]
					d = g[c.Rng.Intn(len(g))]
				} else {
					d = gen.DomainValues[c.Rng.Intn(len(gen.DomainValues))]
				}
				s.Domains = append(s.Domains, gen.Val{Name: d, Neg: c.Rng.Intn(5) == 0})
			}
			gen.AddRandomMods(c.Rng, s, gen.ModKinds{ThirdParty: true, Types: true, Important: true}, 0.2)
			lines = append(lines, s.Render(c.Rng))
			specs = append(specs, c01Spec{s, ""})
		case r < 15:
			// Neither index: short or any-URL shortcut without $domain.
			s := &gen.Spec{Pattern: []string{"ad", "|https://", "|http://", "ws:", "|ws://", "wss:", "http", "|http", "a", "^", "://", "|https:"}[c.Rng.Intn(12)]}
			if len(s.Pattern) < 3 {
				restr(s)
			}
			gen.AddRandomMods(c.Rng, s, gen.ModKinds{ThirdParty: true, Types: true, CTag: true, MatchCase: true}, 0.2)
			lines = append(lines, s.Render(c.Rng))
			specs = append(specs, c01Spec{s, ""})
		case r < 16:
			lines = append(lines, c05RegexGrammar(c.Rng))
		case r == 16:
			// Two rules whose WHOLE texts collide under FastHash (same prefix
			// state, identical suffix) and that have no long shortcut and no
			// $domain: the sequential table.
			prefix := []string{"||a", "||s", "@@||t", "|http://x", "/b", "||a.", "*x"}[c.Rng.Intn(7)]
			groups := gen.CollidingTails(prefix)
			if len(groups) == 0 {
				continue
			}
			g := groups[c.Rng.Intn(len(groups))]
			suffix := []string{"*.ru^", "*.com^$important", "^$ctag=a", "*z^$third-party", "*", "^|"}[c.Rng.Intn(6)]
			for _, t := range g {
				text := prefix + t + suffix
				if len(prefix+t) < 3 && !strings.Contains(suffix, "$ctag") {
					continue
				}
				lines = append(lines, text)
				lit := strings.NewReplacer("||", "", "|", "", "@@", "", "*", "").Replace(prefix + t)
				specs = append(specs, c01Spec{&gen.Spec{Pattern: prefix + t + strings.SplitN(suffix, "$", 2)[0]}, strings.TrimPrefix(lit, "http://") + "7.ru"})
			}
		case r == 17 && len(lines) > 0 && c.Rng.Intn(2) == 0:
			// Raw non-ASCII text in the pattern (multi-byte characters inside
			// and at the edges of the five-byte windows).
			s := &gen.Spec{Pattern: []string{"/ban/\u0440\u0435\u043a\u043b\u0430\u043c\u0430", "||\u00fcnl\u00fc-shop.example^", "/ads/\u5e7f\u544a/", "||shop-\u00fcnl\u00fc.example^", "/r\u00e9clame/x", "\u00e9\u00e9\u00e9"}[c.Rng.Intn(6)]}
			gen.AddRandomMods(c.Rng, s, gen.ModKinds{ThirdParty: true, Important: true, Types: true}, 0.1)
			lines = append(lines, s.Render(c.Rng))
			specs = append(specs, c01Spec{s, ""})
		case r == 17 && len(lines) > 0:
			lines = append(lines, lines[c.Rng.Intn(len(lines))])
		case r == 18:
			lines = append(lines, []string{"! comment", "0.0.0.0 a.com", "example.org##.banner", "", "a.com", "||bad^$nosuchmodifier"}[c.Rng.Intn(6)])
		default:
			s, ph := gen.RandomMaskSpec(c.Rng, gen.ModKinds{MatchCase: true, Important: true}, 0.3)
			lines = append(lines, s.Render(c.Rng))
			specs = append(specs, c01Spec{s, ph})
		}
	}
	if c01ForceCrowd > 0 || c.Rng.Intn(10) == 0 {
		// A crowd: hundreds of rules whose only five-character window is the
		// same one (what a list of per-site rules for one ad path looks like),
		// each with its own $domain or host tail, so that requests single out
		// individual members wherever they sit in the bucket.
		win := []string{"/ads.", "ad01/", "=ad1&", "||ab.io^", "/px.g"}[c.Rng.Intn(5)]
		m := 257 + c.Rng.Intn(400)
		if c01ForceCrowd > 0 {
			m = c01ForceCrowd
		}
		for i := 0; i < m; i++ {
			s := &gen.Spec{Pattern: win, Domains: []gen.Val{{Name: "site" + strconv.Itoa(i) + ".example"}}}
			if c.Rng.Intn(8) == 0 {
				s.Important = true
			}
			lines = append(lines, s.Render(c.Rng))
			specs = append(specs, c01Spec{s, ""})
		}
		c.Event("lists_with_a_crowded_shortcut", 1)
	}

	return lines, specs
}

func c01Requests(c *core.Ctx, lines []string, specs []c01Spec, n int) (out []*gen.Req) {
	for len(out) < n {
		switch r := c.Rng.Intn(16); {
		case r < 7 && len(specs) > 0:
			s := specs[c.Rng.Intn(len(specs))]
			q := gen.TargetedReq(c.Rng, s.spec, s.phost, 0.25)
			if !q.HostnameReq && c.Rng.Intn(2) == 0 {
				// Make the pattern's literal part appear in the URL.
				lit := strings.NewReplacer("||", "", "|", "", "^", "/", "*", "zz").Replace(s.spec.Pattern)
				if !strings.Contains(lit, "://") {
					switch c.Rng.Intn(3) {
					case 0:
						q.URL = "http://" + gen.Hosts[c.Rng.Intn(len(gen.Hosts))] + "/" + lit // at the very end
					case 1:
						q.URL = "https://" + lit
					default:
						q.URL = "http://x.com/p/" + lit + "/" + lit + "?" + lit
					}
				}
			}
			out = append(out, q)
		case r < 9:
			// Colliding window in the URL.
			g := gen.WindowGroups[c.Rng.Intn(len(gen.WindowGroups))]
			q := gen.RandomReq(c.Rng, 0)
			q.URL = "http://a.com/" + g[c.Rng.Intn(len(g))] + []string{"", "/", "x", "?" + g[0]}[c.Rng.Intn(4)]
			out = append(out, q)
		case r < 11:
			// Source host from a colliding domain group (or a subdomain of one).
			g := gen.DomainGroups[c.Rng.Intn(len(gen.DomainGroups))]
			q := gen.RandomReq(c.Rng, 0)
			q.Source = "http://" + []string{"", "www.", "a.b."}[c.Rng.Intn(3)] + g[c.Rng.Intn(len(g))] + "/"
			out = append(out, q)
		case r == 11:
			q := gen.RandomReq(c.Rng, 0)
			q.URL = []string{"", "a", "ab:", "http:", "h://a", "ad", "http://", "ws://a", "adsab"}[c.Rng.Intn(9)]
			out = append(out, q)
		case r == 12:
			q := gen.RandomReq(c.Rng, 0)
			q.URL = "http://a.com/" + strings.Repeat("adsabadsba", 2+c.Rng.Intn(4))
			out = append(out, q)
		case r == 13:
			q := gen.RandomReq(c.Rng, 0)
			q.URL = "http://long.example/" + strings.Repeat("x/", 2040+c.Rng.Intn(10)) + "ads/banner.js"
			out = append(out, q)
		default:
			out = append(out, gen.RandomReq(c.Rng, 0.3))
		}
		if q := out[len(out)-1]; !q.HostnameReq && c.Rng.Intn(10) == 0 {
			// Letter case of the URL (matching works on a lower-cased copy).
			b := []byte(q.URL)
			for i := range b {
				if b[i] >= 'a' && b[i] <= 'z' && c.Rng.Intn(3) == 0 {
					b[i] -= 32
				}
			}
			q.URL = string(b)
		}
	}

	return out
}

// c01Split distributes lines (already permuted) over 1..4 lists.
func c01Split(c *core.Ctx, lines []string) (ids []int, contents []string) {
	nl := 1 + c.Rng.Intn(4)
	pool := []int{0, 1, -1, math.MinInt32, math.MaxInt32, 7, 1 << 20, 17, 33, 257}
	perm := c.Rng.Perm(len(pool))
	parts := make([][]string, nl)
	for _, l := range lines {
		k := c.Rng.Intn(nl)
		parts[k] = append(parts[k], l)
	}
	for i := 0; i < nl; i++ {
		ids = append(ids, pool[perm[i]])
		// Line endings are part of the configuration space too.
		contents = append(contents, util.LinesEOL(parts[i], []string{"\n", "\n", "\r\n"}[c.Rng.Intn(3)]))
	}
	// Lists without a single rule (empty, comments, rejected lines) anywhere
	// among the others.
	for k := 0; k < 2 && len(ids) < len(pool) && c.Rng.Intn(4) == 0; k++ {
		at := c.Rng.Intn(len(ids) + 1)
		ids = append(ids[:at], append([]int{pool[perm[len(ids)]]}, ids[at:]...)...)
		contents = append(contents[:at], append([]string{[]string{"", "! comments only\n# nothing else\n", "||rejected^$nosuchmodifier\n\n", "\n\n"}[c.Rng.Intn(4)]}, contents[at:]...)...)
	}

	return ids, contents
}

// c01FileStorage writes the lists to scratch files (removed when the storage
// is closed... by the caller's deferred RemoveAll) and returns a file-backed
// storage, or nil.
func c01FileStorage(c *core.Ctx, ids []int, contents []string) *filterlist.RuleStorage {
	dir, err := os.MkdirTemp(filepath.Join(c.Env.VerifDir, ".work"), "c01f.")
	if err != nil {
		return nil
	}
	c01ScratchDirs = append(c01ScratchDirs, dir)
	var ls []filterlist.RuleList
	for i, content := range contents {
		fn := filepath.Join(dir, "list"+strconv.Itoa(i)+".txt")
		if os.WriteFile(fn, []byte(util.ChopEOL(content)), 0o644) != nil {
			return nil
		}
		fl, ferr := filterlist.NewFileRuleList(ids[i], fn, false)
		if ferr != nil {
			return nil
		}
		ls = append(ls, fl)
	}
	s, serr := filterlist.NewRuleStorage(ls)
	if serr != nil {
		return nil
	}

	return s
}

// c01ScratchDirs are removed at the end of the case.
var c01ScratchDirs []string

func c01ScanNetwork(s *filterlist.RuleStorage) (out []*rules.NetworkRule) {
	sc := s.NewRuleStorageScanner()
	for sc.Scan() {
		r, _ := sc.Rule()
		if nr, ok := r.(*rules.NetworkRule); ok {
			out = append(out, nr)
		}
	}

	return out
}

func c01Oracle(c *core.Ctx, all []*rules.NetworkRule, req *rules.Request, witness any) (set []string, ok bool) {
	ok = !c.Guard("NetworkRule.Match(linear scan)", nil, witness, func() {
		for _, r := range all {
			if r.Match(req) {
				set = append(set, r.RuleText)
			}
		}
	})

	return util.SortedSet(set), ok
}

type c01Witness struct {
	Lists   []string `json:"lists"`
	IDs     []int    `json:"list_ids"`
	Request *gen.Req `json:"request"`
	Lost    []string `json:"lost,omitempty"`
	Extra   []string `json:"spurious,omitempty"`
}

func c01Compare(c *core.Ctx, via string, got []*rules.NetworkRule, want []string, w c01Witness) {
	gs := util.SortedSet(util.Texts(got))
	c.Eval(1)
	if lost := util.Diff(want, gs); len(lost) > 0 {
		w.Lost = lost
		c.Violation("lost-rule:"+via, nil, w, "%s lost matching rule(s) %q for request %s (%d rules in %d lists)", via, lost, c01Short(w.Request), strings.Count(strings.Join(w.Lists, ""), "\n"), len(w.Lists))
	}
	if extra := util.Diff(gs, want); len(extra) > 0 {
		w.Extra = extra
		c.Violation("spurious-rule:"+via, nil, w, "%s returned non-matching rule(s) %q for request %s", via, extra, c01Short(w.Request))
	}
	// (Multiplicity is deliberately not judged: the statement is about sets, and
	// the unchanged $domain index itself returns a rule once per listed value
	// that applies, e.g. twice for "$domain=a.com|a.com".)
	if len(w.Lists) > 0 && len(util.MoreOftenThanListed(util.Texts(got), w.Lists...)) > 0 {
		c.Event("answers_with_a_rule_more_often_than_listed", 1)
	}
}

var (
	c01RealOnce    sync.Once
	c01RealEngine  *urlfilter.NetworkEngine
	c01RealRules   []*rules.NetworkRule
	c01RealStorage *filterlist.RuleStorage
)

func c01Real(env *core.Env) {
	c01RealOnce.Do(func() {
		var ls []filterlist.RuleList
		for i, f := range []string{"testdata/easylist.txt", "examples/proxy/adguard_russian_filter.txt", "testdata/adguard_sdn_filter.txt"} {
			ls = append(ls, &filterlist.StringRuleList{ID: i + 1, RulesText: strings.Join(gen.ReadLines(env.RepoDir, f), "\n"), IgnoreCosmetic: true})
		}
		c01RealStorage, _ = filterlist.NewRuleStorage(ls)
		c01RealEngine = urlfilter.NewNetworkEngine(c01RealStorage)
		c01RealRules = c01ScanNetwork(c01RealStorage)
	})
}

var c01CptTypes = map[string]rules.RequestType{
	"document": rules.TypeDocument, "sub_frame": rules.TypeSubdocument, "script": rules.TypeScript, "stylesheet": rules.TypeStylesheet,
	"image": rules.TypeImage, "xhr": rules.TypeXmlhttprequest, "media": rules.TypeMedia, "font": rules.TypeFont, "websocket": rules.TypeWebsocket, "other": rules.TypeOther,
}

func c01Run(c *core.Ctx, idx int) {
	nReal := map[core.Tier]int{core.Quick: 64, core.Thorough: 2000}[c.Env.Tier]
	if idx < nReal {
		// Real lists x real requests.
		c01Real(c.Env)
		corp := gen.LoadCorpus(c.Env.RepoDir)
		if len(corp.Requests) == 0 || len(c01RealRules) == 0 {
			c.Inconclusive("bundled corpora not found")

			return
		}
		for k := 0; k < 6; k++ {
			cr := corp.Requests[c.Rng.Intn(len(corp.Requests))]
			t, ok := c01CptTypes[cr.Cpt]
			if !ok {
				t = rules.TypeOther
			}
			q := &gen.Req{URL: cr.URL, Source: cr.FrameURL, Type: t}
			req := q.Build()
			before := mon.Snapshot()
			var got []*rules.NetworkRule
			w := c01Witness{Lists: []string{"easylist.txt", "adguard_russian_filter.txt", "adguard_sdn_filter.txt"}, Request: q}
			if c.Guard("NetworkEngine.MatchAll", nil, w, func() { got = c01RealEngine.MatchAll(req) }) {
				continue
			}
			d := mon.Delta(before, mon.Snapshot())
			want, ok2 := c01Oracle(c, c01RealRules, req, w)
			if !ok2 {
				continue
			}
			c01Compare(c, "real-lists", got, want, w)
			for n, v := range d {
				c.Event(n, v)
			}
			if d["shortcuts.candidate"]+d["domains.candidate"] > 0 {
				c.NonTrivial(core.Hash64("real", q.Key()))
			}
			c.Event("real_requests", 1)
			c.Event("real_rules_scanned", int64(len(c01RealRules)))
		}

		return
	}

	defer func() {
		for _, d := range c01ScratchDirs {
			_ = os.RemoveAll(d)
		}
		c01ScratchDirs = nil
	}()
	maxRules := map[core.Tier]int{core.Quick: 160, core.Thorough: 400}[c.Env.Tier]
	if c.Env.Tier == core.Thorough && idx == nReal {
		c01ForceCrowd = 65536 + 300
		c.Event("lists_with_more_than_65536_rules_under_one_shortcut", 1)
	}
	lines, specs := c01Pool(c, maxRules)
	c01ForceCrowd = 0
	reqs := c01Requests(c, lines, specs, 30)

	type variant struct {
		ids      []int
		contents []string
		engine   *urlfilter.NetworkEngine
	}
	nv := 3 + c.Rng.Intn(3)
	var vars []variant
	for v := 0; v < nv; v++ {
		perm := util.Shuffle(c.Rng, lines)
		ids, contents := c01Split(c, perm)
		s, err := util.StorageIDs(ids, contents, c.Rng.Intn(2) == 0)
		if err != nil {
			c.Inconclusive("storage-rejected")

			return
		}
		if v == 1 && c.Rng.Intn(2) == 0 {
			// The same lists backed by files.
			if fs := c01FileStorage(c, ids, contents); fs != nil {
				s = fs
				defer fs.Close()
				c.Event("file_backed_variants", 1)
			}
		}
		eng := urlfilter.NewNetworkEngine(s)
		if v > 0 && c.Rng.Intn(3) == 0 {
			// The other public way to build the index (the one the DNS engine
			// uses): an empty engine to which every scanned rule is added.
			eng = urlfilter.NewNetworkEngineSkipStorageScan(s)
			sc := s.NewRuleStorageScanner()
			var added []*rules.NetworkRule
			for sc.Scan() {
				r, idx := sc.Rule()
				nr, isNet := r.(*rules.NetworkRule)
				if !isNet {
					continue
				}
				eng.AddRule(nr, idx)
				added = append(added, nr)
				// The engine is usable while it grows: asked in between, it
				// answers for the rules added so far (and nothing it did then
				// may stand in the way of the rules added later).
				if c.Rng.Intn(12) == 0 && len(reqs) > 0 && (len(lines) < 5000 || len(added)%512 == 0) {
					q := reqs[c.Rng.Intn(len(reqs))]
					req := q.Build()
					wq := c01Witness{Lists: contents, IDs: ids, Request: q}
					if want, ok := c01Oracle(c, added, req, wq); ok {
						var got []*rules.NetworkRule
						if !c.Guard("NetworkEngine.MatchAll", nil, wq, func() { got = eng.MatchAll(req) }) {
							c01Compare(c, "MatchAll(while rules are being added)", got, want, wq)
						}
					}
					c.Event("queries_while_rules_are_being_added", 1)
				}
			}
			c.Event("engines_built_by_AddRule", 1)
		}
		vars = append(vars, variant{ids, contents, eng})
	}
	s0, _ := util.StorageIDs(vars[0].ids, vars[0].contents, true)
	all := c01ScanNetwork(s0)
	c.Event("rules_per_list_sum", int64(len(all)))

	for _, q := range reqs {
		req := q.Build()
		w0 := c01Witness{Lists: vars[0].contents, IDs: vars[0].ids, Request: q}
		want, ok := c01Oracle(c, all, req, w0)
		if !ok {
			continue
		}
		for _, v := range vars {
			w := c01Witness{Lists: v.contents, IDs: v.ids, Request: q}
			before := mon.Snapshot()
			var got []*rules.NetworkRule
			if c.Guard("NetworkEngine.MatchAll", nil, w, func() { got = v.engine.MatchAll(req) }) {
				continue
			}
			d := mon.Delta(before, mon.Snapshot())
			for n, x := range d {
				c.Event(n, x)
			}
			c01Compare(c, "MatchAll", got, want, w)
			if d["shortcuts.candidate"]+d["domains.candidate"] > 0 {
				c.NonTrivial(core.Hash64(append([]string{q.Key()}, v.contents...)...))
			}
			if d["shortcuts.candidate"] > d["shortcuts.match"]+d["shortcuts.dedup"] || d["domains.candidate"] > d["domains.match"] {
				c.Event("evaluations_with_rejected_candidate", 1)
			}
		}
		if len(want) > 0 {
			c.Event("requests_with_matches", 1)
		}
	}
	// Second use: the same engines (now with warm caches and compiled rules)
	// asked again, in another order.
	for _, q := range util.Shuffle(c.Rng, reqs)[:min(8, len(reqs))] {
		req := q.Build()
		want, ok := c01Oracle(c, all, req, c01Witness{Lists: vars[0].contents, IDs: vars[0].ids, Request: q})
		if !ok {
			continue
		}
		for _, v := range vars {
			var got []*rules.NetworkRule
			w := c01Witness{Lists: v.contents, IDs: v.ids, Request: q}
			if c.Guard("NetworkEngine.MatchAll", nil, w, func() { got = v.engine.MatchAll(req) }) {
				continue
			}
			c01Compare(c, "MatchAll(second use)", got, want, w)
		}
	}
	if c.WantSample() && c.Rng.Intn(10) == 0 {
		c.Sample(map[string]any{"rules": len(lines), "first_rules": lines[:min(6, len(lines))], "list_ids": vars[0].ids, "variants": nv, "requests": len(reqs), "a_request": reqs[0]})
	}
}

func init() {
	sizes := map[core.Tier]int{core.Quick: 64 + 3000, core.Thorough: 2000 + 120000}
	core.Register(&core.Prop{
		ID:    "C01",
		Level: "exploration",
		Rule: "per case a pool of 20..160 (thorough 400) rule lines mixing the three index paths (shortcut >= 5 bytes; short shortcut + $domain incl. wildcard and hash-colliding values; neither incl. any-URL shortcuts and regexes), colliding 5-byte windows, match-case, duplicates and inert lines, inserted in 3..5 random permutations and splits into 1..4 lists with ids from {0,1,-1,MinInt32,MaxInt32,...}; " +
			"30 requests per pool (aimed at rules, shortcut at the very end of the URL, URLs of 0..5 bytes, repeated windows, > 4 KiB, colliding windows and source hosts, hostname requests with client/ctag/dnstype); plus the three bundled real lists against sampled requests.json entries; " +
			"one list in ten holds a crowd of 257..656 rules under ONE five-character window (thorough: one case with 65 836), each singled out by its own $domain; " +
			"oracle = Match of independently scanned rule objects over the whole storage, both inclusions; non-trivial = evaluation in which a lookup table produced at least one candidate (hook counters); distinct by (request, lists)",
		Assumptions: []string{
			"results are compared as sets of rule texts (tables legitimately de-duplicate or repeat)",
			"NetworkRule.Match is the definition of 'individually matches' (its own correctness is C03/C04/C05)",
		},
		Setup: func(env *core.Env) {
			gen.Collisions()
			mon.Install()
		},
		Cases: func(t core.Tier) int { return sizes[t] },
		Run:   c01Run,
	})
}

func c01Short(q *gen.Req) string {
	k := q.Key()
	if len(k) > 300 {
		k = k[:300] + "..."
	}

	return k
}
