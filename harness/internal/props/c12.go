package props

import (
	"fmt"
	"github.com/AdguardTeam/urlfilter/filterlist"
	"os"
	"path/filepath"
	"strconv"
	"strings"
	"sync"

	"github.com/AdguardTeam/urlfilter"
	"github.com/AdguardTeam/urlfilter/rules"

	"verifharness/internal/core"
	"verifharness/internal/gen"
	"verifharness/internal/util"
)

// C12: parsing and matching never crash; comments and rejected lines are inert.

var c12Nasty = []string{
	"@@", "$", "||", "|", "*", "^", "a", "ab", "$$", "##", "#@#", "#?#", "$domain=", "$domain=a.com", "||a^$dnsrewrite=;;", "||a^$dnsrewrite=;", "/(/", "/[/$match-case",
	"\\$", "a\\", "||a^$client='", "||a^$client=\"", "||a^$client=~", "||a^$client=|", "||a^$ctag=", "||a^$dnstype=", "||a^$dnstype=~", "||a^$denyallow=~a.com",
	"@@||", "@@|", "@@*", "@@^$domain=a.com", "|$domain=a.com", "||$ctag=a", "*$client=1.2.3.4", "^$denyallow=a.com", "a$dnstype=A", "$$script", "a$$b", "a$@$b",
	"//", "///", "/a/", "/a/$", "/a/$replace=/x/y/", "/\\/", "/(?!x)/", "/a{99999}/", "/(a|b)*c+/", "/[a-/", "/\\x/", "/\\p{Greek}/", "||a.com^$~extension", "@@||a.com^$~extension,document",
	"0.0.0.0", "0.0.0.0 ", "::", ":: a", "1.2.3.4 a b c d e f g h i j k", "999.1.1.1 a.com", "a.com#", "a.com #", "#a.com", "!", "! ", "[Adblock]", "a.com,b.com##x", "~a.com##x", "a.*##x", "##", "a.com##", "a.com#@#",
	"||a.com^$important,important", "||a.com^$third-party,~third-party", "||a.com^$script,~script", "||a.com^$badfilter,badfilter", "||a.com^$,", "||a.com^$,,script", "||a.com^$script,", "||a.com^$=", "||a.com^$=x", "||a.com^$domain=a.com|", "||a.com^$domain=|a.com", "||a.com^$domain=~", "||a.com^$domain=a..com", "||a.com^$domain=.*",
	"||a.com^$dnsrewrite=NOERROR;A;", "||a.com^$dnsrewrite=NOERROR;MX;", "||a.com^$dnsrewrite=NOERROR;SRV;1 2 3", "||a.com^$dnsrewrite=NOERROR;HTTPS;1", "||a.com^$dnsrewrite=NOERROR;PTR;", "||a.com^$dnsrewrite=NOERROR;;x", "||a.com^$dnsrewrite=;A;1.2.3.4",
	"\x00", "||\x00^", "\xff\xfe", "||\xc3\x28.com^", " ", "||a.com^ ", "\t||a.com^\t", "  ", "||a.com^$domain=\xff.com",
}

var (
	c12RealLines []string
	c12RealOnce  sync.Once
)

func c12LoadReal(env *core.Env) {
	c12RealOnce.Do(func() {
		for _, f := range []string{"testdata/easylist.txt", "examples/proxy/adguard_russian_filter.txt", "testdata/adguard_sdn_filter.txt", "testdata/hosts"} {
			for i, l := range gen.ReadLines(env.RepoDir, f) {
				if l != "" && (i%3 == 0 || len(l) > 120) {
					c12RealLines = append(c12RealLines, l)
				}
			}
		}
	})
}

func c12Mutate(c *core.Ctx, s string) string {
	b := []byte(s)
	alphabet := "$,|^*~@#!/\\=.:;'\"()[]{}?+- \t%&aZ09_\x00\xff"
	for i, n := 0, c.Rng.Intn(4); i < n; i++ {
		ch := alphabet[c.Rng.Intn(len(alphabet))]
		switch op := c.Rng.Intn(5); {
		case op == 0 || len(b) == 0:
			p := c.Rng.Intn(len(b) + 1)
			b = append(b[:p], append([]byte{ch}, b[p:]...)...)
		case op == 1:
			p := c.Rng.Intn(len(b))
			b = append(b[:p], b[p+1:]...)
		case op == 2:
			b[c.Rng.Intn(len(b))] = ch
		case op == 3:
			p := c.Rng.Intn(len(b))
			q := p + c.Rng.Intn(min(len(b)-p, 12)+1)
			b = append(b[:q], append(append([]byte{}, b[p:q]...), b[q:]...)...)
		default:
			// Splice with another line.
			o := c12Line(c, false)
			p := c.Rng.Intn(len(b))
			q := c.Rng.Intn(len(o) + 1)
			b = append(b[:p], o[q:]...)
		}
	}
	out := strings.NewReplacer("\n", "", "\r", "").Replace(string(b))

	return out
}

// c12Line returns one line.
func c12Line(c *core.Ctx, mutate bool) string {
	var l string
	switch r := c.Rng.Intn(12); {
	case r < 4:
		s, _ := gen.RandomMaskSpec(c.Rng, gen.AllMods, 0.25)
		if s.Exception && c.Rng.Intn(4) == 0 {
			s.DocOpts = []string{[]string{"elemhide", "urlblock", "document", "genericblock", "jsinject", "content", "extension", "generichide"}[c.Rng.Intn(8)]}
		}
		if c.Rng.Intn(8) == 0 {
			v := []string{"1.2.3.4", "REFUSED", "NOERROR;MX;1 m.x", "", "x.y"}[c.Rng.Intn(5)]
			s.DNSRewrite = &v
		}
		l = s.Render(c.Rng)
	case r < 7 && len(c12RealLines) > 0:
		l = c12RealLines[c.Rng.Intn(len(c12RealLines))]
	case r == 7:
		l = c05RegexGrammar(c.Rng)
	case r == 8:
		l = c18MakeLine(c).Text
	case r == 9:
		l = c15Rule(c)
	default:
		l = c12Nasty[c.Rng.Intn(len(c12Nasty))]
	}
	if mutate && c.Rng.Intn(2) == 0 {
		l = c12Mutate(c, l)
	}
	if c.Rng.Intn(400) == 0 {
		l += strings.Repeat("x", 5000+c.Rng.Intn(6000))
	}
	if c.Rng.Intn(15) == 0 {
		// Blanks of every kind around the line (all of these are white space
		// for the trimming the statement refers to), and look-alikes that are
		// not (byte order mark, zero-width space), which stay part of the text.
		ws := []string{" ", "\t", "\v", "\f", "\r", "\u00a0", "\u0085", "\u2003", "\u3000", "\ufeff", "\u200b"}
		for i, n := 0, 1+c.Rng.Intn(3); i < n; i++ {
			w := ws[c.Rng.Intn(len(ws))]
			switch c.Rng.Intn(3) {
			case 0:
				l = w + l
			case 1:
				l += w
			default:
				l = w + l + ws[c.Rng.Intn(len(ws))]
			}
		}
		if c.Rng.Intn(6) == 0 && len(l) > 2 {
			// A carriage return that does not end the line.
			p := 1 + c.Rng.Intn(len(l)-1)
			l = l[:p] + "\r" + l[p:]
		}
	}

	return l
}

type c12Witness struct {
	Line  string   `json:"line,omitempty"`
	Lines []string `json:"lines,omitempty"`
	What  string   `json:"what"`
	Req   *gen.Req `json:"request,omitempty"`
}

var c12Pool []*rules.NetworkRule

var c12HostileHosts = []string{
	strings.Repeat("a.", 126) + "example.org", strings.Repeat("a.", 127) + "org", strings.Repeat("a.", 128) + "example.org",
	strings.Repeat("b.", 200) + "com", strings.Repeat("c.", 1000) + "example.org",
	strings.Repeat("x", 300) + ".example.org", strings.Repeat("y", 5000) + ".com", "a..b.example.org", ".example.org", "example.org.", "...", ".",
	strings.Repeat(".", 300), "example.org" + strings.Repeat(".sub", 70) + ".example.org", strings.Repeat("9.", 64) + "1",
}

func c12Requests(c *core.Ctx, line string) []*gen.Req {
	reqs := []*gen.Req{
		{URL: "http://a.com/ads/banner.js?q=1", Source: "http://example.org/", Type: rules.TypeScript},
		{URL: "https://sub.example.org/path", Source: "", Type: rules.TypeDocument},
		{HostnameReq: true, Host: "a.com", DNSType: 1, ClientName: "Mom"},
		{HostnameReq: true, Host: "1.2.3.4", DNSType: 28},
	}
	for i := 0; i < 3; i++ {
		reqs = append(reqs, gen.RandomReq(c.Rng, 0.3))
	}
	// Requests nobody validated: host names of more labels and bytes than a
	// name can have, on the request and on the referrer side and as DNS
	// questions ("any request").
	for i := 0; i < 2; i++ {
		h := c12HostileHosts[c.Rng.Intn(len(c12HostileHosts))]
		switch c.Rng.Intn(3) {
		case 0:
			reqs = append(reqs, &gen.Req{URL: "http://a.com/ads/banner.js", Source: "http://" + h + "/", Type: rules.TypeScript})
		case 1:
			reqs = append(reqs, &gen.Req{URL: "https://" + h + "/ads/banner.js", Source: "http://" + h + "/page", Type: rules.TypeImage})
		default:
			reqs = append(reqs, &gen.Req{HostnameReq: true, Host: h, DNSType: 1})
		}
	}
	// A URL built from the line itself, so that patterns meet it.
	lit := strings.NewReplacer("||", "http://", "|", "", "^", "/", "*", "x", "@@", "").Replace(line)
	if i := strings.IndexByte(lit, '$'); i > 0 {
		lit = lit[:i]
	}
	if len(lit) > 300 {
		lit = lit[:300]
	}
	reqs = append(reqs, &gen.Req{URL: lit, Source: "http://a.com/", Type: rules.TypeImage})
	reqs = append(reqs, &gen.Req{URL: "http://z.zz/" + lit, Source: "http://a.com/", Type: rules.TypeOther})

	return reqs
}

// c12Answers queries all engines over the list contents and returns a
// canonical description of the answers.
// c12FileDir, when set, makes c12Answers back the lists by files in that
// directory instead of strings.
var c12FileDir string

func c12Storage(content ...string) *filterlist.RuleStorage {
	if c12FileDir == "" {
		return util.Storage(content...)
	}
	var ls []filterlist.RuleList
	for i, t := range content {
		fn := filepath.Join(c12FileDir, "l"+strconv.Itoa(i)+".txt")
		if err := os.WriteFile(fn, []byte(t), 0o644); err != nil {
			panic(err)
		}
		fl, err := filterlist.NewFileRuleList(i, fn, false)
		if err != nil {
			panic(err)
		}
		ls = append(ls, fl)
	}
	s, err := filterlist.NewRuleStorage(ls)
	if err != nil {
		panic(err)
	}

	return s
}

func c12Answers(c *core.Ctx, w c12Witness, reqs []*gen.Req, content ...string) (out []string, ok bool) {
	ok = !c.Guard("engines:"+w.What, nil, w, func() {
		s1, s2, s3, s4 := c12Storage(content...), c12Storage(content...), c12Storage(content...), c12Storage(content...)
		defer func() { _, _, _, _ = s1.Close(), s2.Close(), s3.Close(), s4.Close() }()
		eng := urlfilter.NewEngine(s1)
		ne := urlfilter.NewNetworkEngine(s2)
		de := urlfilter.NewDNSEngine(s3)
		ce := urlfilter.NewCosmeticEngine(s4)
		for _, q := range reqs {
			if q.HostnameReq {
				res, m := de.MatchRequest(&urlfilter.DNSRequest{Hostname: q.Host, DNSType: q.DNSType, ClientName: q.ClientName, ClientIP: q.ClientIP, SortedClientTags: q.Tags})
				v := c08DNSVerdict(res, m, true)
				out = append(out, "dns|"+v.DNSRule+"|"+strings.Join(util.Sorted(util.Texts(res.NetworkRules)), ";")+"|"+strings.Join(v.V4, ";")+"|"+strings.Join(v.V6, ";")+"|"+strings.Join(v.Rewrites, ";")+"|"+boolStr(m))
				cr := ce.Match(q.Host, true, true, true)
				out = append(out, "cos|"+strings.Join(util.Sorted(cr.ElementHiding.Generic), ";")+"|"+strings.Join(util.Sorted(cr.ElementHiding.Specific), ";"))

				continue
			}
			req := q.Build()
			mr := eng.MatchRequest(req)
			v := c08WebVerdict(mr)
			out = append(out, "web|"+v.Basic+"|"+v.Document+"|"+v.Stealth+"|"+v.Result+"|"+string(rune('0'+v.Cosmetic)))
			out = append(out, "all|"+strings.Join(util.Sorted(util.Texts(ne.MatchAll(req))), ";"))
			r, m := ne.Match(req)
			out = append(out, "one|"+c08Text(r)+"|"+boolStr(m))
		}
	})

	return out, ok
}

// c12CheckLine runs the per-line monitors: every constructor, the
// nil/rule/error trichotomy, text and list id, and every obtained rule
// through Match, priority and selection.  Parsed lines are appended to valid,
// inert ones to noise.
func c12CheckLine(c *core.Ctx, line string, id int, valid, noise *[]string) {
	w := c12Witness{Line: line}
	c.Eval(1)

	var r rules.Rule
	var err error
	w.What = "NewRule"
	if c.Guard("NewRule", nil, w, func() { r, err = rules.NewRule(line, id) }) {
		return
	}
	switch {
	case r == nil && err == nil:
		t := strings.TrimSpace(line)
		if t != "" && t[0] != '!' && t[0] != '#' {
			c.Violation("non-comment-yields-nothing", nil, w, "NewRule(%q) returned neither a rule nor an error", line)
		}
		*noise = append(*noise, line)
		c.Event("lines_blank_or_comment", 1)
	case err != nil:
		// (NewRule may return a typed nil pointer next to the error; callers
		// are expected to look at the error first.)
		r = nil
		*noise = append(*noise, line)
		c.Event("lines_rejected", 1)
	default:
		c.Event("lines_parsed", 1)
		c.NonTrivial(core.Hash64(line))
		if r.Text() != strings.TrimSpace(line) {
			c.Violation("text-differs", nil, w, "NewRule(%q).Text() = %q, expected the trimmed line", line, r.Text())
		}
		if r.GetFilterListID() != id {
			c.Violation("list-id-differs", nil, w, "NewRule(%q, %d).GetFilterListID() = %d", line, id, r.GetFilterListID())
		}
		if !strings.ContainsAny(line, "\x00") {
			*valid = append(*valid, line)
		}
	}

	// Each constructor on the raw line.
	var nr *rules.NetworkRule
	w.What = "NewNetworkRule"
	c.Guard("NewNetworkRule", nil, w, func() { nr, _ = rules.NewNetworkRule(strings.TrimSpace(line), id) })
	w.What = "NewHostRule"
	c.Guard("NewHostRule", nil, w, func() { _, _ = rules.NewHostRule(strings.TrimSpace(line), id) })
	w.What = "NewCosmeticRule"
	c.Guard("NewCosmeticRule", nil, w, func() { _, _ = rules.NewCosmeticRule(strings.TrimSpace(line), id) })
	if x, ok := r.(*rules.NetworkRule); ok && nr == nil {
		nr = x
	}

	reqs := c12Requests(c, line)
	if nr != nil {
		for _, q := range reqs {
			w2 := c12Witness{Line: line, What: "NetworkRule.Match", Req: q}
			c.Guard("NetworkRule.Match", nil, w2, func() {
				req := q.Build()
				a := nr.Match(req)
				b := nr.Match(req) // second call: compiled / invalid flag path
				if a != b {
					panic("Match is not stable across two calls")
				}
			})
		}
		w.What = "IsHigherPriority/NewMatchingResult/GetDNSBasicRule"
		c.Guard("priority-and-selection", nil, w, func() {
			c07Ensure()
			for i := 0; i < 6; i++ {
				o := c07Pool[c.Rng.Intn(len(c07Pool))].Rule
				_ = nr.IsHigherPriority(o)
				_ = o.IsHigherPriority(nr)
				mr := rules.NewMatchingResult([]*rules.NetworkRule{o, nr}, []*rules.NetworkRule{nr, o})
				_ = mr.GetBasicResult()
				_ = mr.GetCosmeticOption()
				_ = rules.GetDNSBasicRule([]*rules.NetworkRule{nr, o})
			}
			res := &urlfilter.DNSResult{NetworkRules: []*rules.NetworkRule{nr, nr}}
			_ = res.DNSRewrites()
			// $badfilter rules that equal this rule in everything but one list
			// modifier which only they carry: the twin comparison walks down to
			// that modifier and meets an absent one on the other side.
			sep := "$"
			if t := strings.TrimSpace(line); strings.Contains(t, "$") && !strings.HasSuffix(t, "$") && !nr.IsRegexRule() {
				sep = ","
			}
			for _, extra := range []string{"badfilter", "client=~10.0.0.5,badfilter", "client=Mom,badfilter", "ctag=~device_pc,badfilter", "dnstype=~A,badfilter", "denyallow=x.example,badfilter", "domain=~x.example,badfilter", "dnsrewrite=1.2.3.4,badfilter"} {
				tw, terr := rules.NewNetworkRule(strings.TrimSpace(line)+sep+extra, id)
				if terr != nil || tw == nil {
					continue
				}
				for _, pair := range [][]*rules.NetworkRule{{nr, tw}, {tw, nr}} {
					mr := rules.NewMatchingResult(append([]*rules.NetworkRule(nil), pair...), append([]*rules.NetworkRule(nil), pair...))
					_ = mr.GetBasicResult()
					_ = rules.GetDNSBasicRule(append([]*rules.NetworkRule(nil), pair...))
					_ = (&urlfilter.DNSResult{NetworkRules: append([]*rules.NetworkRule(nil), pair...)}).DNSRewrites()
				}
			}
		})
	}
	switch v := r.(type) {
	case *rules.HostRule:
		c.Guard("HostRule.Match", nil, w, func() { _ = v.Match("a.com"); _ = v.Match("") })
	case *rules.CosmeticRule:
		c.Guard("CosmeticRule.Match", nil, w, func() { _ = v.Match("a.com"); _ = v.Match(""); _ = v.Match("sub.example.org") })
	}
}

// FuzzLineC12 is the entry point of the native fuzz target.
func FuzzLineC12(c *core.Ctx, line string) {
	var valid, noise []string
	c12CheckLine(c, line, 1, &valid, &noise)
	reqs := c12Requests(c, line)
	c12Answers(c, c12Witness{Lines: []string{line}, What: "single-line list"}, reqs, line+"\n")
}

// FuzzValueC10 is the entry point of the native fuzz target.
func FuzzValueC10(c *core.Ctx, value string) {
	c10Check(c, c10Case{Value: value, Note: "fuzz"})
}

// c12FirstLines are the lines the first cases start with; these cases are run
// once more each as the first case of a fresh process (Cold), where the line
// is the first one the library sees since the process started: one per kind of
// rule, modifier family and constructor path.
var c12FirstLines = []string{
	"/banner\\d+/", "@@/^https?:\\/\\/cdn\\.example\\.org\\/ads/", "/ads[0-9]+/$script,domain=a.com", "/(?!x)/", "/[/",
	"||a.com^", "@@||a.com^$important", "a.com", "0.0.0.0 a.com", "::1 a.com b.a.com", "a.com##.banner", "a.com#@#.banner", "##.generic", "a.com#$#body { x }", "a.com#%#alert(1)", "a.com$$script[x]",
	"||a.com^$dnsrewrite=1.2.3.4", "||a.com^$dnsrewrite=NOERROR;HTTPS;1 . alpn=h3", "||a.com^$dnsrewrite=NOERROR;MX;10 mail.a.com", "||a.com^$client=Mom", "||a.com^$client=10.0.0.0/8", "||a.com^$ctag=device_pc", "||a.com^$dnstype=A",
	"||a.com^$denyallow=b.com", "||a.com^$domain=example.org", "||a.com^$domain=example.*", "||a.com^$badfilter", "||a.com^$replace=/a/b/", "||a.com^$third-party,script,~image", "||a.com^$match-case", "|http://a.com/*banner|", "||\u043f\u0440\u0438\u043c\u0435\u0440.\u0440\u0444^",
	"||a.com^$nosuchmodifier", "! comment", "", "# comment", "||a.com^$removeparam=x", "||a.com^$csp=script-src 'none'", "||a.com^$cookie=x", "||a.com^$redirect=noopjs", "*$document", "@@||a.com^$document", "||a.com^$popup", "$$", "|", "||a.com\\$x^",
}

func c12Run(c *core.Ctx, idx int) {
	c12LoadReal(c.Env)
	id := []int{1, 0, -5, 1 << 30}[c.Rng.Intn(4)]
	var valid, noise []string
	var batch []string
	if idx < len(c12FirstLines) {
		line := c12FirstLines[idx]
		batch = append(batch, line)
		c12CheckLine(c, line, id, &valid, &noise)
		c12Answers(c, c12Witness{Lines: []string{line}, What: "the first line"}, c12Requests(c, line), line+"\n")
		c.Event("cases_starting_with_a_fixed_first_line", 1)
	}
	for k := 0; k < 24; k++ {
		line := c12Line(c, true)
		batch = append(batch, line)
		c12CheckLine(c, line, id, &valid, &noise)
	}

	// Lines that are comments by the documented syntax ('!' lines, and '#'
	// lines that do not start a cosmetic marker) yield nothing at all.
	for _, cl := range []string{"! comment", "!", "!no space", "# comment", "#", "#\ttab comment", "#comment-without-space", "#  two spaces", "# ||looks.like.a.rule^", "#@ not a marker", "# 0.0.0.0 commented.example", "#||a.com^$important", "  # indented comment", "\t! indented"} {
		var r rules.Rule
		var err error
		w := c12Witness{Line: cl, What: "NewRule(comment)"}
		if c.Guard("NewRule", nil, w, func() { r, err = rules.NewRule(cl, id) }) {
			continue
		}
		c.Eval(1)
		if err != nil || (r != nil && !isNilRule(r)) {
			c.Violation("comment-yields-something", nil, w, "NewRule(%q) = (%v, %v): a comment line must yield nothing", cl, r, err)
		}
	}

	// Engines on a list containing all the lines of the batch.
	reqs := c12Requests(c, batch[0])
	content := util.Lines(batch)
	if _, ok := c12Answers(c, c12Witness{Lines: batch, What: "batch"}, reqs, content); ok {
		c.Event("engine_batches", 1)
	}

	// Inertness: noise insertion and CRLF conversion leave every answer unchanged.
	if len(valid) == 0 {
		return
	}
	var cleanNoise []string
	for _, n := range noise {
		if !strings.ContainsAny(n, "\x00") {
			cleanNoise = append(cleanNoise, n)
		}
	}
	cleanNoise = append(cleanNoise, "", "! comment", "# comment", "   ", "\t", "#\ttab comment", "#comment-without-space", "#  two spaces", "!no space", "# ||looks.like.a.rule^", "#@ not a marker", "! example.org##.banner", "#", "!", "# 0.0.0.0 commented.example", "#||a.com^$important")
	// Inert lines longer than the 4 KiB read buffer whose part beyond a buffer
	// boundary would be a rule that matches the requests, if it were ever
	// treated as a line of its own.
	if c.Rng.Intn(3) == 0 {
		pad := func(prefix string, n int, tail string) string {
			return prefix + strings.Repeat("-", n-len(prefix)) + tail
		}
		cleanNoise = append(cleanNoise,
			pad("! ", 4096, "||a.com^"),
			pad("! ", 8192, "||sub.example.org^$important"),
			pad("||x.example^$nosuchmodifier=", 4096, "||a.com^"),
			pad("# ", 4096, "0.0.0.0 a.com"),
			pad("! ", 4095, "x||a.com^"),
			pad("! ", 4097, "||a.com^"),
		)
	}
	base := util.Lines(valid)
	a0, ok0 := c12Answers(c, c12Witness{Lines: valid, What: "inert-base"}, reqs, base)
	if !ok0 {
		return
	}
	ext := c08Insert(c, valid, cleanNoise)
	variants := map[string][]string{
		"noise-inserted":   {util.Lines(ext)},
		"crlf":             {strings.Join(valid, "\r\n") + "\r\n"},
		"no-final-newline": {strings.Join(valid, "\n")},
		"noise+crlf":       {strings.Join(ext, "\r\n")},
		// Inert lines that form a list of their own, and an empty list, before
		// and after the list with the rules.
		"noise-only-list-first":       {util.Lines(cleanNoise[:min(len(cleanNoise), 6)]), base},
		"empty-list-first":            {"", base},
		"empty-and-noise-lists-after": {base, "", util.Lines(cleanNoise[:min(len(cleanNoise), 3)])},
	}
	fileDir := ""
	if c.Rng.Intn(3) == 0 {
		// The same relation with the lists backed by files (whether the last
		// line has a terminator matters to a reader that works on buffers).
		if d, derr := os.MkdirTemp(filepath.Join(c.Env.VerifDir, ".work"), "c12f."); derr == nil {
			fileDir = d
			defer os.RemoveAll(d)
			variants["file-backed"] = []string{base}
			variants["file-backed-no-final-newline"] = []string{strings.Join(valid, "\n")}
			variants["file-backed-noise+crlf-no-final-newline"] = []string{strings.Join(ext, "\r\n")}
		}
	}
	for name, content := range variants {
		c12FileDir = ""
		if strings.HasPrefix(name, "file-backed") {
			c12FileDir = fileDir
		}
		a1, ok1 := c12Answers(c, c12Witness{Lines: ext, What: "inert-" + name}, reqs, content...)
		c12FileDir = ""
		if !ok1 {
			continue
		}
		c.Eval(1)
		c.Event("inertness_comparisons", 1)
		for i := range a0 {
			if i >= len(a1) || a0[i] != a1[i] {
				got := "<missing>"
				if i < len(a1) {
					got = a1[i]
				}
				c.Violation("not-inert:"+name, nil, map[string]any{"base": valid, "variant": name, "extended": ext, "base_answer": a0[i], "variant_answer": got},
					"variant %s changes an answer:\n base    %s\n variant %s", name, a0[i], got)

				break
			}
		}
	}
	c12ListCopies(c, valid, reqs)
	if c.WantSample() && c.Rng.Intn(60) == 0 {
		c.Sample(map[string]any{"lines": batch[:6], "parsed": len(valid), "inert_lines": len(noise)})
	}
}

// c12ListCopies loads the same lines as two lists with different ids: every
// rule an engine returns carries the id of the list it was read from, so the
// rules returned under one id are exactly those returned under the other.
func c12ListCopies(c *core.Ctx, valid []string, reqs []*gen.Req) {
	pairs := [][2]int{{1, 2}, {0, 16}, {3, 259}, {-1, 1}, {5, 65541}, {2, 1}}
	ids := pairs[c.Rng.Intn(len(pairs))]
	content := util.Lines(valid)
	w := c12Witness{Lines: valid, What: fmt.Sprintf("the same lines as lists %d and %d", ids[0], ids[1])}
	c.Guard("engines:list-copies", nil, w, func() {
		s1, err1 := util.StorageIDs(ids[:], []string{content, content}, false)
		s2, err2 := util.StorageIDs(ids[:], []string{content, content}, false)
		if err1 != nil || err2 != nil {
			return
		}
		ne := urlfilter.NewNetworkEngine(s1)
		de := urlfilter.NewDNSEngine(s2)
		for _, q := range reqs {
			by := map[int][]string{}
			short := map[string]bool{}
			note := func(r *rules.NetworkRule) {
				by[r.FilterListID] = append(by[r.FilterListID], r.RuleText)
				// Rules without a five-character shortcut may be kept in the
				// sequential table, which holds one rule per text.
				// (so may rules whose shortcut is only a scheme.)
				sh := strings.TrimPrefix(r.Shortcut, "|")
				short[r.RuleText] = len(r.Shortcut) < 5 || len(r.Shortcut) < 10 && (strings.HasPrefix(sh, "ws") || strings.HasPrefix(sh, "http"))
			}
			if q.HostnameReq {
				res, _ := de.MatchRequest(&urlfilter.DNSRequest{Hostname: q.Host, DNSType: q.DNSType, ClientName: q.ClientName, ClientIP: q.ClientIP, SortedClientTags: q.Tags})
				for _, r := range res.NetworkRules {
					note(r)
				}
				for _, r := range append(append([]*rules.HostRule(nil), res.HostRulesV4...), res.HostRulesV6...) {
					by[r.FilterListID] = append(by[r.FilterListID], r.RuleText)
				}
			} else {
				for _, r := range ne.MatchAll(q.Build()) {
					note(r)
				}
			}
			c.Eval(1)
			c.Event("list_copy_comparisons", 1)
			a, b := util.SortedSet(by[ids[0]]), util.SortedSet(by[ids[1]])
			delete(by, ids[0])
			delete(by, ids[1])
			if len(a) > 0 {
				c.Event("list_copy_comparisons_with_rules", 1)
			}
			var onlyFirst []string
			for _, t := range util.Diff(a, b) {
				if !short[t] {
					onlyFirst = append(onlyFirst, t)
				}
			}
			if len(onlyFirst) > 0 || len(util.Diff(b, a)) > 0 || len(by) > 0 {
				wq := w
				wq.Req = q
				c.Violation("list-id-of-returned-rule", nil, map[string]any{"lines": valid, "ids": ids, "request": q, "under_first": a, "under_second": b, "other_ids": fmt.Sprint(by)},
					"the same lines loaded as lists %d and %d: rules returned under %d: %q, under %d: %q, under other ids: %v", ids[0], ids[1], ids[0], a, ids[1], b, by)

				break
			}
		}
	})
}

func init() {
	sizes := map[core.Tier]int{core.Quick: 16000, core.Thorough: 400000}
	core.Register(&core.Prop{
		ID:    "C12",
		Level: "exploration",
		Rule: "the first 46 cases start with one fixed line per kind of rule / modifier family and are run once more each as the first case of a fresh process; per case 24 lines: grammar-rendered rules with every modifier kind, lines of the four bundled lists, regex-grammar rules, hosts and cosmetic lines and a table of ~130 hand-made hostile lines, half of them with 0..3 byte mutations (insert, delete, replace, duplicate a span, splice with another line), occasionally > 5 KiB; " +
			"each line through NewRule (nil/rule/error trichotomy, Text()==TrimSpace(line), list id), NewNetworkRule, NewHostRule, NewCosmeticRule, every obtained rule through Match twice on 9 requests (URL and hostname, one built from the line itself), IsHigherPriority, NewMatchingResult, GetDNSBasicRule, DNSRewrites, and the whole batch through construction and querying of Engine, NetworkEngine, DNSEngine and CosmeticEngine; " +
			"the parsed lines loaded as two lists with different ids (the rules returned under one id are those returned under the other); " +
			"metamorphic: inserting the blank/comment/rejected lines anywhere, CRLF line ends and a missing final newline leave every engine answer unchanged; panics and dead workers are violations with the journalled input; non-trivial = line that parses to a rule; distinct by line",
		Assumptions: []string{
			"termination is monitored as bounded progress by the worker watchdog (inconclusive when it fires), not proved",
			"lines containing NUL are excluded from the inertness lists only (they are still parsed and matched)",
		},
		Setup: func(env *core.Env) { c12LoadReal(env) },
		Cold: func(core.Tier) (out []int) {
			for i := range c12FirstLines {
				out = append(out, i)
			}

			return out
		},
		Cases: func(t core.Tier) int { return sizes[t] },
		Run:   c12Run,
	})
}

// isNilRule tells whether the interface holds a typed nil pointer.
func isNilRule(r rules.Rule) bool {
	switch v := r.(type) {
	case *rules.NetworkRule:
		return v == nil
	case *rules.HostRule:
		return v == nil
	case *rules.CosmeticRule:
		return v == nil
	}

	return false
}
