package props

import (
	"fmt"
	"os"
	"path/filepath"
	"runtime"
	"strconv"
	"strings"
	"sync"
	"sync/atomic"
	"time"

	"github.com/AdguardTeam/urlfilter"
	"github.com/AdguardTeam/urlfilter/filterlist"
	"github.com/AdguardTeam/urlfilter/rules"

	"verifharness/internal/core"
	"verifharness/internal/gen"
	"verifharness/internal/mon"
	"verifharness/internal/util"
)

// C14: engines can be queried concurrently: race-free and sequentially consistent.

var (
	c14RaceOff  int64
	c14RacePath string
	c14Easy     []string
	c14EasyOnce sync.Once
)

// c14Uncompilable are rules that the parser accepts and that fail (or are
// expensive) only when they are compiled on first use - by whichever goroutines
// reach them first.
var c14Uncompilable = []string{"/(?!x)a/", "/a{2000}b{2000}/", "/\\p{Nope}/", "/[/", "/ads(?=x)/$important", "@@/(?<n>a)\\k<n>/", "/x(?!y)/$script"}

// c14HostsFile is a list in the style of a "compressed" hosts file: one
// address followed by up to sixteen names per line, in no particular order.
func c14HostsFile(c *core.Ctx) (lines []string) {
	n := 40 + c.Rng.Intn(200)
	k := 0
	for i := 0; i < n; i++ {
		l := c18IPs[c.Rng.Intn(len(c18IPs))]
		for j, m := 0, []int{1, 2, 8, 9, 10, 12, 16}[c.Rng.Intn(7)]; j < m; j++ {
			l += " " + []string{"zz", "m", "a", "q"}[c.Rng.Intn(4)] + strconv.Itoa(k*7919%1000) + ".hosts.example"
			k++
		}
		lines = append(lines, l)
	}

	return lines
}

// c14HostsRound tells that the list of the current case is a hosts file.
var c14HostsRound bool

func c14List(c *core.Ctx) []string {
	lines := c14ListBase(c)
	c14HostsRound = c.Rng.Intn(6) == 0
	if c14HostsRound {
		lines = c14HostsFile(c)
		c.Event("rounds_over_a_compressed_hosts_file", 1)
	}
	for i, n := 0, 1+c.Rng.Intn(4); i < n; i++ {
		j := c.Rng.Intn(len(lines) + 1)
		lines = append(lines[:j], append([]string{c14Uncompilable[c.Rng.Intn(len(c14Uncompilable))]}, lines[j:]...)...)
	}

	return lines
}

func c14ListBase(c *core.Ctx) []string {
	if c.Rng.Intn(4) == 0 {
		c14EasyOnce.Do(func() { c14Easy = gen.ReadLines(c.Env.RepoDir, "testdata/easylist.txt") })
		if len(c14Easy) > 3000 {
			off := c.Rng.Intn(len(c14Easy) - 2500)
			n := 500 + c.Rng.Intn(2000)
			if c.Env.Tier == core.Quick {
				n = 300 + c.Rng.Intn(500)
			}

			return append([]string(nil), c14Easy[off:off+n]...)
		}
	}
	maxRules := 2000
	if c.Env.Tier == core.Quick {
		maxRules = 400
	}
	lines, _ := c01Pool(c, 100+c.Rng.Intn(maxRules-100))
	// Some rules come with their $badfilter twin (every query that meets such
	// a pair runs the twin filter on rule objects all goroutines share).
	for i, n := 0, len(lines)/12; i < n; i++ {
		l := lines[c.Rng.Intn(len(lines))]
		if l == "" || l[0] == '!' || l[0] == '#' || strings.Contains(l, "##") || strings.Contains(l, " ") || strings.Contains(l, "badfilter") || len(l) > 300 {
			continue
		}
		if j := strings.LastIndexByte(l, '$'); j >= 0 && !strings.HasSuffix(l, "/") {
			lines = append(lines, l+",badfilter")
		} else if !strings.HasSuffix(l, "/") {
			lines = append(lines, l+"$badfilter")
		}
	}
	for i := 0; i < len(lines)/10; i++ {
		switch c.Rng.Intn(3) {
		case 0:
			l := c18IPs[c.Rng.Intn(len(c18IPs))] + " " + gen.Hosts[c.Rng.Intn(len(gen.Hosts))]
			if c.Rng.Intn(3) == 0 {
				// A line of a "compressed" hosts file: many names after one address.
				for k, n := 0, 8+c.Rng.Intn(8); k < n; k++ {
					l += " " + gen.Hosts[c.Rng.Intn(len(gen.Hosts))]
				}
			}
			lines = append(lines, l)
		case 1:
			lines = append(lines, c15Rule(c))
		default:
			lines = append(lines, "||"+gen.Hosts[c.Rng.Intn(len(gen.Hosts))]+"^$dnsrewrite=1.2.3.4")
		}
	}

	return util.Shuffle(c.Rng, lines)
}

type c14Engine struct {
	kind    string
	dns     *urlfilter.DNSEngine
	eng     *urlfilter.Engine
	net     *urlfilter.NetworkEngine
	storage *filterlist.RuleStorage
	// shared are request objects used by all goroutines of a round.
	shared map[*gen.Req]*rules.Request
}

// c14Twin maps a list (or a request) to its twin: same line lengths, hence
// identical rule offsets, different host names.
var c14Twin = strings.NewReplacer("example", "exbmple", "ads", "adz", "tracker", "trbcker", "google", "gobgle", "banner", "bbnner", "a.com", "o.com", "evil", "evjl")

func c14Build(kind, content, file string) (*c14Engine, error) {
	var s *filterlist.RuleStorage
	if strings.HasPrefix(file, "twin:") {
		// Two lists with identical offsets (list 2 is the twin of list 1).
		path := strings.TrimPrefix(file, "twin:")
		var ls []filterlist.RuleList
		if path == "" {
			ls = []filterlist.RuleList{&filterlist.StringRuleList{ID: 1, RulesText: content}, &filterlist.StringRuleList{ID: 2, RulesText: c14Twin.Replace(content)}}
		} else {
			for i, p := range []string{path, path + ".twin"} {
				fl, err := filterlist.NewFileRuleList(i+1, p, false)
				if err != nil {
					return nil, err
				}
				ls = append(ls, fl)
			}
		}
		var err error
		if s, err = filterlist.NewRuleStorage(ls); err != nil {
			return nil, err
		}
	} else if file != "" {
		fl, err := filterlist.NewFileRuleList(1, file, false)
		if err != nil {
			return nil, err
		}
		s, err = filterlist.NewRuleStorage([]filterlist.RuleList{fl})
		if err != nil {
			return nil, err
		}
	} else {
		s = util.Storage(content)
	}
	e := &c14Engine{kind: kind, storage: s}
	switch kind {
	case "dns":
		e.dns = urlfilter.NewDNSEngine(s)
	case "engine", "cosmetic", "mixed":
		e.eng = urlfilter.NewEngine(s)
	default:
		e.net = urlfilter.NewNetworkEngine(s)
	}

	return e, nil
}

// req returns the request object of a query: a fresh one, or, when the round
// shares request objects between goroutines (the callers own them and the
// engines only read them), the one built before the goroutines started.
func (e *c14Engine) req(q *gen.Req) *rules.Request {
	if r, ok := e.shared[q]; ok {
		return r
	}

	return q.Build()
}

// answer returns the canonical answer of one query.
func (e *c14Engine) answer(q *gen.Req) string {
	kind := e.kind
	if kind == "mixed" {
		// Web and cosmetic queries on ONE engine at the same time.
		kind = "engine"
		if q.HostnameReq {
			kind = "cosmetic"
		}
	}
	switch kind {
	case "dns":
		res, m := e.dns.MatchRequest(&urlfilter.DNSRequest{Hostname: q.Host, DNSType: q.DNSType, ClientName: q.ClientName, ClientIP: q.ClientIP, SortedClientTags: q.Tags})

		return "rule=" + c08Text(res.NetworkRule) + " all=" + strings.Join(util.Sorted(util.Texts(res.NetworkRules)), ";") +
			" v4=" + strings.Join(c08HostTexts(res.HostRulesV4), ";") + " v6=" + strings.Join(c08HostTexts(res.HostRulesV6), ";") + " m=" + boolStr(m) +
			" rw=" + strings.Join(util.Sorted(util.Texts(res.DNSRewrites())), ";")
	case "engine":
		mr := e.eng.MatchRequest(e.req(q))

		return "basic=" + c08Text(mr.BasicRule) + " doc=" + c08Text(mr.DocumentRule) + " stealth=" + c08Text(mr.StealthRule) + " res=" + c08Text(mr.GetBasicResult())
	case "cosmetic":
		cr := e.eng.GetCosmeticResult(q.Host, rules.CosmeticOptionAll)

		return "g=" + strings.Join(util.Sorted(cr.ElementHiding.Generic), ";") + " s=" + strings.Join(util.Sorted(cr.ElementHiding.Specific), ";")
	default:
		return strings.Join(util.Sorted(util.Texts(e.net.MatchAll(e.req(q)))), ";")
	}
}

type c14Witness struct {
	Engine     string   `json:"engine"`
	FileBacked bool     `json:"file_backed"`
	Goroutines int      `json:"goroutines"`
	Mode       string   `json:"perturbation"`
	Rules      int      `json:"rules"`
	ListHead   []string `json:"list_head"`
	Request    *gen.Req `json:"request,omitempty"`
	Got        string   `json:"concurrent_answer,omitempty"`
	Want       string   `json:"sequential_answer,omitempty"`
	Race       string   `json:"race_report,omitempty"`
}

var c14ModeNames = []string{"none", "gosched", "sleep", "rendezvous"}

func c14Run(c *core.Ctx, idx int) {
	lines := c14List(c)
	if c.Rng.Intn(3) == 0 {
		lines = gen.PadToStraddle(c.Rng, lines, 1+c.Rng.Intn(3))
	}
	content := util.Lines(lines)
	kind := []string{"dns", "engine", "network", "network", "cosmetic", "mixed"}[c.Rng.Intn(6)]
	if c14HostsRound {
		kind = "dns"
	}
	file := ""
	if c.Rng.Intn(2) == 0 {
		dir, err := os.MkdirTemp(filepath.Join(c.Env.VerifDir, ".work"), "c14f.")
		if err != nil {
			c.Inconclusive("cannot create scratch directory")

			return
		}
		defer os.RemoveAll(dir)
		file = filepath.Join(dir, "list.txt")
		if err = os.WriteFile(file, []byte(util.ChopEOL(content)), 0o644); err != nil {
			c.Inconclusive("cannot write scratch file")

			return
		}
	}
	twin := c.Rng.Intn(3) == 0
	if twin {
		if file != "" {
			if err := os.WriteFile(file+".twin", []byte(c14Twin.Replace(content)), 0o644); err != nil {
				c.Inconclusive("cannot write scratch file")

				return
			}
		}
		file = "twin:" + file
		c.Event("rounds_two_lists_identical_offsets", 1)
	}
	g := []int{2, 4, 8, 16, 32}[c.Rng.Intn(5)]
	mode := c.Rng.Intn(4)
	w := c14Witness{Engine: kind, FileBacked: file != "" && file != "twin:", Goroutines: g, Mode: c14ModeNames[mode], Rules: len(lines), ListHead: lines[:min(8, len(lines))]}

	// Requests: few keys, many threads.
	var distinct []*gen.Req
	nd := 5 + c.Rng.Intn(25)
	for len(distinct) < nd {
		var q *gen.Req
		gk := kind
		if kind == "mixed" && c.Rng.Intn(2) == 0 {
			gk = "cosmetic"
		}
		switch gk {
		case "dns":
			q = gen.RandomReq(c.Rng, 1)
			if l := lines[c.Rng.Intn(len(lines))]; strings.HasSuffix(l, ".hosts.example") {
				// A name of a hosts line of the list.
				f := strings.Fields(l)
				q.Host = f[1+c.Rng.Intn(len(f)-1)]
			}
		case "cosmetic":
			q = &gen.Req{HostnameReq: true, Host: c15Hostnames[c.Rng.Intn(len(c15Hostnames))]}
		default:
			qs := c01Requests(c, lines, nil, 1)
			q = qs[0]
			if c.Rng.Intn(3) == 0 {
				// Repeated windows taken from a rule of the list.
				l := lines[c.Rng.Intn(len(lines))]
				lit := strings.NewReplacer("||", "", "|", "", "^", "/", "*", "x", "@@", "").Replace(l)
				if i := strings.IndexByte(lit, '$'); i >= 0 {
					lit = lit[:i]
				}
				if len(lit) > 4 && len(lit) < 200 && !strings.ContainsAny(lit, " #") {
					q = &gen.Req{URL: "http://" + lit + "/" + lit + "?" + lit, Source: "http://a.com/", Type: rules.TypeScript}
				}
			}
		}
		distinct = append(distinct, q)
	}
	if twin {
		// Ask for the twin of every request as well.
		for _, q := range append([]*gen.Req(nil), distinct...) {
			t := *q
			t.URL, t.Source, t.Host = c14Twin.Replace(q.URL), c14Twin.Replace(q.Source), c14Twin.Replace(q.Host)
			distinct = append(distinct, &t)
		}
	}
	total := 50 + c.Rng.Intn(450)
	if c.Env.Tier == core.Quick {
		total = 50 + c.Rng.Intn(200)
	}
	work := make([][]int, g)
	for i := 0; i < total; i++ {
		k := c.Rng.Intn(g)
		work[k] = append(work[k], c.Rng.Intn(len(distinct)))
	}

	// Sequential answers on a separate engine over the same bytes.
	seqEng, err := c14Build(kind, content, file)
	if err != nil {
		c.Inconclusive("cannot build engine")

		return
	}
	want := make([]string, len(distinct))
	if c.Guard("sequential-query", nil, w, func() {
		for i, q := range distinct {
			want[i] = seqEng.answer(q)
		}
	}) {
		return
	}
	_ = seqEng.storage.Close()

	// Fresh, cold engine for the concurrent run.
	conEng, err := c14Build(kind, content, file)
	if err != nil {
		c.Inconclusive("cannot build engine")

		return
	}
	defer conEng.storage.Close()
	if c.Rng.Intn(2) == 0 {
		// Every goroutine passes the SAME request objects to the engine.
		conEng.shared = map[*gen.Req]*rules.Request{}
		for _, q := range distinct {
			if !q.HostnameReq {
				conEng.shared[q] = q.Build()
			}
		}
		c.Event("rounds_with_request_objects_shared_between_goroutines", 1)
	}
	sched := mon.NewSched(c.Rng.Int63(), mode, []float64{0.05, 0.2, 0.5}[c.Rng.Intn(3)])
	sched.OffsetKeys = twin
	mon.SetExtra(sched.Handle)
	defer mon.SetExtra(nil)

	type result struct {
		req int
		got string
	}
	results := make([][]result, g)
	panics := make([]string, g)
	var progress atomic.Int64
	var start, done sync.WaitGroup
	start.Add(1)
	for k := 0; k < g; k++ {
		done.Add(1)
		go func(k int) {
			defer done.Done()
			defer func() {
				if r := recover(); r != nil {
					panics[k] = fmt.Sprint(r)
				}
			}()
			start.Wait()
			for _, ri := range work[k] {
				results[k] = append(results[k], result{ri, conEng.answer(distinct[ri])})
				progress.Add(1)
			}
		}(k)
	}
	before := mon.Snapshot()
	start.Done()
	// Every query returns: the round is over when all goroutines are done.  A
	// round that makes no progress at all while every goroutine that is still
	// in it is blocked acquiring a lock (nobody is left to release one) is a
	// deadlock; that is decided on the goroutine states, not on elapsed time.
	finished := make(chan struct{})
	go func() { done.Wait(); close(finished) }()
	last, still := int64(-1), 0
wait:
	for {
		select {
		case <-finished:
			break wait
		case <-time.After(2 * time.Second):
			if p := progress.Load(); p != last {
				last, still = p, 0

				continue
			}
			if still++; still < 3 {
				continue
			}
			if n, dump := c14BlockedOnLocks(); n > 0 {
				mon.SetExtra(nil)
				w2 := w
				w2.Race = dump
				c.Violation("deadlock:"+kind, nil, w2, "%s engine, %d goroutines, perturbation %s: after %d of %d queries no query returns any more and all %d goroutines still in the round are blocked acquiring a lock:\n%s",
					kind, g, c14ModeNames[mode], last, total, n, dump)
				c.Event("rounds_that_deadlocked", 1)

				return
			}
			still = 0
		}
	}
	mon.SetExtra(nil)
	d := mon.Delta(before, mon.Snapshot())

	for k := range panics {
		if panics[k] != "" {
			c.Violation("panic-in-concurrent-query", nil, w, "goroutine %d of %d panicked: %s", k, g, panics[k])
		}
	}
	bad := false
	for k := range results {
		for _, r := range results[k] {
			c.Eval(1)
			if r.got != want[r.req] && !bad {
				bad = true
				w2 := w
				w2.Request, w2.Got, w2.Want = distinct[r.req], r.got, want[r.req]
				c.Violation("concurrent-answer-differs:"+kind, nil, w2, "%s engine, %d goroutines, perturbation %s: concurrent answer differs from the sequential one for %s\n concurrent: %s\n sequential: %s",
					kind, g, c14ModeNames[mode], c01Short(distinct[r.req]), r.got, want[r.req])
			}
		}
	}

	// Race detector reports written during this round.
	if c14RacePath == "" {
		c14RacePath = mon.RaceLogPath()
	}
	if c14RacePath != "" && mon.RaceEnabled {
		var reps []mon.RaceReport
		reps, c14RaceOff = mon.ReadRaceReports(c14RacePath, c14RaceOff)
		for _, r := range reps {
			w2 := w
			w2.Race = r.Text
			c.Violation("data-race:"+r.Sig, nil, w2, "race detector report during a round with the %s engine (%d goroutines, %s):\n%s", kind, g, c14ModeNames[mode], r.Text)
		}
		c.Event("race_log_checked", 1)
	} else {
		c.Inconclusive("race detector not active (binary built without -race or GORACE log_path missing)")
	}

	// What was observed.
	c.Event("rounds_"+kind, 1)
	c.Event("rounds_mode_"+c14ModeNames[mode], 1)
	if file != "" && file != "twin:" {
		c.Event("rounds_file_backed", 1)
	}
	c.Event("concurrent_queries", int64(total))
	c.Event("overlapping_miss_windows", sched.OverlapMiss.Load())
	c.Event("rendezvous_met", sched.RendezvousMet.Load())
	c.Event("rendezvous_timeouts", sched.RendezvousTimeout.Load())
	c.Event("file_seeked_arrivals_during_seek_read", sched.FileSeekedWhile.Load())
	c.Event("rule_compile_arrivals", sched.CompileArrivals.Load())
	c.Event("pool_gets", sched.PoolGets.Load())
	c.Event("yields_injected", sched.Yields.Load())
	c.Event("cache_misses", d["storage.miss"])
	c.Event("cache_inserts", d["storage.insert"])
	if d["storage.miss"] > 0 {
		// Distinct interleavings: the order of miss/insert events of the round.
		c.NonTrivial(sched.OrderHash())
	}
	if sched.OverlapMiss.Load() > 0 {
		c.Event("rounds_with_overlap", 1)
	}
	if c.WantSample() && c.Rng.Intn(4) == 0 {
		c.Sample(map[string]any{"engine": kind, "file_backed": file != "", "goroutines": g, "perturbation": c14ModeNames[mode], "rules": len(lines), "queries": total, "distinct_requests": len(distinct),
			"cache_misses": d["storage.miss"], "overlapping_miss_windows": sched.OverlapMiss.Load(), "rendezvous_met": sched.RendezvousMet.Load()})
	}
}

// c14BlockedOnLocks looks at the goroutines that are executing queries of a
// round (frames of c14Run's query closure).  It returns their number and
// their stacks if there is at least one and every one of them is waiting to
// acquire a mutex, and 0 otherwise.
func c14BlockedOnLocks() (n int, dump string) {
	buf := make([]byte, 4<<20)
	buf = buf[:runtime.Stack(buf, true)]
	var blocked []string
	for _, g := range strings.Split(string(buf), "\n\n") {
		if !strings.Contains(g, "props.c14Run.func") || !strings.Contains(g, ".answer(") {
			continue
		}
		head := g
		if i := strings.IndexByte(g, '\n'); i > 0 {
			head = g[:i]
		}
		i, j := strings.IndexByte(head, '['), strings.IndexByte(head, ']')
		if i < 0 || j < i {
			return 0, ""
		}
		state := head[i+1 : j]
		if k := strings.IndexByte(state, ','); k > 0 {
			state = state[:k]
		}
		switch state {
		case "sync.RWMutex.RLock", "sync.RWMutex.Lock", "sync.Mutex.Lock", "semacquire":
			lines := strings.Split(g, "\n")
			blocked = append(blocked, strings.Join(lines[:min(len(lines), 14)], "\n"))
		default:
			return 0, ""
		}
	}
	n = len(blocked)
	if n > 6 {
		blocked = append(blocked[:6], fmt.Sprintf("... and %d more", n-6))
	}

	return n, strings.Join(blocked, "\n\n")
}

func init() {
	sizes := map[core.Tier]int{core.Quick: 256, core.Thorough: 2400}
	core.Register(&core.Prop{
		ID:      "C14",
		Level:   "exploration",
		Workers: 8,
		Rule: "harness built with -race; per round a fresh cold storage (String- or File-backed) and engine (DNS, full Engine, NetworkEngine.MatchAll, cosmetic, or web+cosmetic queries mixed on one Engine) over a generated list of 100..400 (thorough 2000) lines or an easylist slice (in a third of the rounds two lists with identical rule offsets: the list and a twin with other host names), a request multiset of 50..250 (thorough 500) drawn from 5..30 distinct requests (few keys, many threads; URLs repeating indexed windows) partitioned over 2/4/8/16/32 goroutines released by a barrier; " +
			"schedule perturbation at the hook points (cache miss/insert, between Seek and read, before regexp.Compile, pool get/put) in one of four modes: none, Gosched with probability p, 1..50 us sleep, rendezvous (the first goroutine at a miss/seek/compile point of key K is held until a second one reaches the same point and key); " +
			"one round in six runs over a compressed hosts file (up to 16 names per line) queried for its names; " +
			"one generated rule in twelve comes with its $badfilter twin; " +
			"monitors: race detector reports (log parsed after every round), every query returns (a round without progress whose remaining goroutines are all blocked acquiring a lock is a deadlock), every concurrent answer == the sequential answer of a separate engine over the same bytes (sorted text multisets), no panic; non-trivial = round with cache misses; distinct by the observed global order of miss/insert events (the interleaving signature)",
		Assumptions: []string{
			"schedules are those the Go scheduler produces under the perturbation; the evidence reports how many overlapping miss windows and rendezvous were actually observed",
			"the race detector only sees the accesses the rounds perform",
		},
		Setup: func(env *core.Env) {
			gen.Collisions()
			mon.Install()
		},
		Cases: func(t core.Tier) int { return sizes[t] },
		Run:   c14Run,
		PostCheck: func(m *core.Merged) {
			if m.Events["overlapping_miss_windows"]+m.Events["rendezvous_met"] == 0 && m.Cases > 0 {
				m.ForceInconclusive = "no overlapping cache-miss window and no rendezvous was observed in any round"
			}
			if m.Events["race_log_checked"] == 0 && m.Cases > 0 {
				m.ForceInconclusive = "the race detector log was never read (binary not built with -race?)"
			}
		},
	})
}
