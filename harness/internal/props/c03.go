package props

import (
	"fmt"
	"strconv"
	"strings"
	"sync"

	"github.com/AdguardTeam/urlfilter/rules"

	"verifharness/internal/core"
	"verifharness/internal/gen"
	"verifharness/internal/ref"
)

// C03: compiled basic patterns accept exactly the documented mask language.

var c03Tokens = []string{"a", "B", ".", "/", "?", "+", "(", ")", "[", "]", "{", "}", "\\", "$", "^", "*", "|", "-", "%", ":"}

// c03Block is a family of patterns: prefix + all token strings of length
// lo..hi + suffix.
type c03Block struct {
	prefix, suffix string
	lo, hi         int
	count          int
}

func c03Blocks(t core.Tier) []c03Block {
	n := 3
	if t == core.Thorough {
		n = 4
	}
	bl := []c03Block{
		{lo: 1, hi: n},
		{prefix: "||", lo: 1, hi: n - 1},
		{suffix: "/*", lo: 1, hi: n - 1},
		{prefix: "||", suffix: "|", lo: 1, hi: n - 1},
		{prefix: "|", suffix: "|", lo: 1, hi: n - 1},
	}
	for i := range bl {
		for l := bl[i].lo; l <= bl[i].hi; l++ {
			bl[i].count += c09Pow(len(c03Tokens), l)
		}
	}

	return bl
}

func c03Enumerated(t core.Tier) int {
	n := 0
	for _, b := range c03Blocks(t) {
		n += b.count
	}

	return n
}

func c03Sampled(t core.Tier) int {
	if t == core.Thorough {
		return 150000
	}

	return 3000
}

func c03RealCount(t core.Tier) int {
	if t == core.Thorough {
		return 30000
	}

	return 2500
}

var (
	c03RealPatterns []string
	c03RealOnce     sync.Once
)

// c03LoadReal collects the mask patterns of the bundled lists.
func c03LoadReal(env *core.Env) {
	c03RealOnce.Do(func() {
		seen := map[string]bool{}
		for _, f := range []string{"testdata/easylist.txt", "examples/proxy/adguard_russian_filter.txt", "testdata/adguard_sdn_filter.txt"} {
			for _, l := range gen.ReadLines(env.RepoDir, f) {
				r, err := rules.NewRule(l, 1)
				nr, ok := r.(*rules.NetworkRule)
				if err != nil || !ok || nr.IsRegexRule() {
					continue
				}
				p := rules.VerifPattern(nr)
				if !seen[p] && len(p) < 120 {
					seen[p] = true
					c03RealPatterns = append(c03RealPatterns, p)
				}
			}
		}
	})
}

func c03PatternOf(c *core.Ctx, idx int) (pattern string, enumerated bool) {
	if nr := c03RealCount(c.Env.Tier); idx < nr {
		if len(c03RealPatterns) == 0 {
			return "||example.org^", false
		}
		// A stride through the list that depends on the seed.
		k := (idx*7919 + int(c.Env.Seed)*104729) % len(c03RealPatterns)
		if k < 0 {
			k += len(c03RealPatterns)
		}

		return c03RealPatterns[k], false
	} else {
		idx -= nr
	}
	n := idx
	for _, b := range c03Blocks(c.Env.Tier) {
		if n < b.count {
			for l := b.lo; l <= b.hi; l++ {
				cnt := c09Pow(len(c03Tokens), l)
				if n < cnt {
					toks := make([]string, l)
					for i := l - 1; i >= 0; i-- {
						toks[i] = c03Tokens[n%len(c03Tokens)]
						n /= len(c03Tokens)
					}

					return b.prefix + strings.Join(toks, "") + b.suffix, true
				}
				n -= cnt
			}
		}
		n -= b.count
	}
	// Sampled longer patterns: realistic fragments glued with mask operators.
	frags := []string{"example", ".com", "/ads", "banner", "?q=", "&u=", "a", "B", ".", "/", "^", "*", "|", "+", "(", ")", "[", "]", "{1}", "\\", "$", "-", "%20", ":", "_", "js", "=1", "||", "://", "http", " ", "buy ", " x"}
	l := 2 + c.Rng.Intn(6)
	var sb strings.Builder
	switch c.Rng.Intn(4) {
	case 0:
		sb.WriteString("||")
	case 1:
		sb.WriteString("|")
	}
	for i := 0; i < l; i++ {
		sb.WriteString(frags[c.Rng.Intn(len(frags))])
	}
	if c.Rng.Intn(4) == 0 {
		sb.WriteString("|")
	}

	return sb.String(), false
}

var c03Prefixes = []string{"", "http://", "https://", "ws://", "wss://", "ftp://", "HTTP://", "http:/", "http://sub.", "http://a-b_c.", "http://.", "http://sub.dom."}

// c03Alphabet returns the reduced string alphabet of a pattern.
func c03Alphabet(pattern string) []byte {
	seen := map[byte]bool{}
	var out []byte
	add := func(b byte) {
		if !seen[b] && b != ' ' {
			seen[b] = true
			out = append(out, b)
		}
	}
	for i := 0; i < len(pattern); i++ {
		ch := pattern[i]
		if ch == '*' || ch == '^' {
			continue
		}
		add(ch)
		if ch >= 'a' && ch <= 'z' {
			add(ch - 32)
		} else if ch >= 'A' && ch <= 'Z' {
			add(ch + 32)
		}
	}
	for _, b := range []byte{'z', '/', '.'} {
		add(b)
	}
	if strings.ContainsAny(pattern, "^") {
		// The separator class is decided by exactly these neighbours.
		for _, b := range []byte{'0', '9', '_', '-', '%', 'Z', ':', '~'} {
			add(b)
		}
		// A blank is in the documented "not a separator" class as well.
		if !seen[' '] {
			seen[' '] = true
			out = append(out, ' ')
		}
	}

	return out
}

type c03Witness struct {
	Rule      string `json:"rule"`
	Pattern   string `json:"pattern"`
	MatchCase bool   `json:"match_case"`
	String    string `json:"string"`
	Compiled  string `json:"compiled_regexp,omitempty"`
	Got       bool   `json:"got"`
	Reference bool   `json:"reference"`
}

// c03Witnesses walks the pattern and returns strings the pattern should accept
// plus their one-edit neighbours.
func c03Witnesses(c *core.Ctx, pattern string, matchCase bool) []string {
	p := pattern
	if strings.HasSuffix(p, "/*") {
		p = p[:len(p)-2] + "^"
	}
	var out []string
	for v := 0; v < 6; v++ {
		var sb strings.Builder
		q := p
		switch {
		case strings.HasPrefix(q, "||"):
			sb.WriteString([]string{"http://", "https://sub.", "ws://a-b.c.", "wss://", "http://x."}[c.Rng.Intn(5)])
			q = q[2:]
		case strings.HasPrefix(q, "|"):
			q = q[1:]
		default:
			sb.WriteString([]string{"", "http://z.com/", "zz"}[c.Rng.Intn(3)])
		}
		end := false
		if strings.HasSuffix(q, "|") && len(q) > 0 {
			end = true
			q = q[:len(q)-1]
		}
		for i := 0; i < len(q); i++ {
			switch q[i] {
			case '*':
				sb.WriteString([]string{"", "z", "z/z", "ab"}[c.Rng.Intn(4)])
			case '^':
				if i == len(q)-1 && c.Rng.Intn(2) == 0 {
					break
				}
				sb.WriteByte("/?:&=;,@!"[c.Rng.Intn(9)])
			default:
				ch := q[i]
				if !matchCase && c.Rng.Intn(3) == 0 {
					if ch >= 'a' && ch <= 'z' {
						ch -= 32
					} else if ch >= 'A' && ch <= 'Z' {
						ch += 32
					}
				}
				sb.WriteByte(ch)
			}
		}
		if !end {
			sb.WriteString([]string{"", "z", "/z"}[c.Rng.Intn(3)])
		}
		w := sb.String()
		out = append(out, w)
		// One-edit neighbours.
		if len(w) > 0 {
			i := c.Rng.Intn(len(w))
			out = append(out, w[:i]+w[i+1:])
			out = append(out, w[:i]+"z"+w[i+1:])
			out = append(out, w[:i]+"z"+w[i:])
			if w[i] >= 'a' && w[i] <= 'z' {
				out = append(out, w[:i]+string(w[i]-32)+w[i+1:])
			}
		}
	}

	return out
}

func c03Run(c *core.Ctx, idx int) {
	pattern, enumerated := c03PatternOf(c, idx)
	if !enumerated && idx%9 == 4 {
		// Twin patterns whose whole texts collide under FastHash, compiled one
		// after the other in this process.
		pre := []string{"||example-a", "/banner_a", "|http://cdn-", "ads.a"}[c.Rng.Intn(4)]
		suf := []string{".com^", "/*", "*.js|", "^"}[c.Rng.Intn(4)]
		if groups := gen.CollidingTails(pre); len(groups) > 0 {
			for _, t := range groups[c.Rng.Intn(len(groups))] {
				c03Check(c, idx, pre+t+suf, false)
			}
			c.Event("hash_colliding_twin_groups", 1)

			return
		}
	}
	c03Check(c, idx, pattern, enumerated)
}

// c03Seen remembers patterns checked earlier in this process; from time to
// time a churn phase creates thousands of other rules and a few of the old
// patterns are compiled again (as new rule objects) and re-checked.
var (
	c03Seen    []string
	c03Checked int
)

func c03Check(c *core.Ctx, idx int, pattern string, enumerated bool) {
	c03Checked++
	if len(c03Seen) < 4096 {
		c03Seen = append(c03Seen, pattern)
	} else {
		c03Seen[c.Rng.Intn(len(c03Seen))] = pattern
	}
	if c03Checked%160 == 0 && !c.Env.Replay {
		churnRules(c, 2600)
		for k := 0; k < 6; k++ {
			c03CheckOne(c, idx, c03Seen[c.Rng.Intn(len(c03Seen))], false)
		}
		c.Event("second_use_rechecks_after_churn", 6)
	}
	if c03Checked%48 == 0 && len(c03Seen) >= 8 {
		c03Concurrent(c)
	}
	c03CheckOne(c, idx, pattern, enumerated)
}

// c03Concurrent compiles different rules for the first time at the same
// moment in different goroutines (each rule object is used by one goroutine
// only), as the workers of a server do after loading lists: what a pattern
// compiles to does not depend on what is being compiled next to it.
func c03Concurrent(c *core.Ctx) {
	const g = 8
	for round := 0; round < 12; round++ {
		var texts [g]string
		var seq, conc [g]string
		var rs [g]*rules.NetworkRule
		n, tries := 0, 0
		for n < g {
			p := c03Seen[c.Rng.Intn(len(c03Seen))]
			if len(p) > 1 && p[0] == '/' && p[len(p)-1] == '/' {
				if tries++; tries > 200 {
					return
				}

				continue
			}
			t := p + "$domain=example.org"
			r1, err1 := rules.NewNetworkRule(t, 1)
			r2, err2 := rules.NewNetworkRule(t, 1)
			if err1 != nil || err2 != nil || r1.IsRegexRule() {
				if tries++; tries > 200 {
					return
				}

				continue
			}
			texts[n] = t
			re, st := rules.VerifPrepared(r1)
			seq[n] = fmt.Sprint(st)
			if re != nil {
				seq[n] += " " + re.String()
			}
			rs[n] = r2
			n++
		}
		start := make(chan struct{})
		var wg sync.WaitGroup
		panicked := make([]any, g)
		for i := 0; i < g; i++ {
			wg.Add(1)
			go func(i int) {
				defer wg.Done()
				defer func() { panicked[i] = recover() }()
				<-start
				re, st := rules.VerifPrepared(rs[i])
				conc[i] = fmt.Sprint(st)
				if re != nil {
					conc[i] += " " + re.String()
				}
			}(i)
		}
		close(start)
		wg.Wait()
		c.Eval(g)
		c.Event("first_compiles_side_by_side", g)
		for i := 0; i < g; i++ {
			if panicked[i] != nil {
				c.Violation("panic:concurrent-first-compile", nil, map[string]any{"rules": texts[:]}, "panic while %q is compiled next to %q: %v", texts[i], texts[:], panicked[i])

				return
			}
			if conc[i] != seq[i] {
				c.Violation("compiled-differently-next-to-other-rules", nil, map[string]any{"rule": texts[i], "alone": seq[i], "side_by_side": conc[i], "others": texts[:]},
					"rule %q compiles to %q alone and to %q when %d other rules are compiled at the same time", texts[i], seq[i], conc[i], g-1)

				return
			}
		}
	}
}

func c03CheckOne(c *core.Ctx, idx int, pattern string, enumerated bool) {
	if len(pattern) > 1 && pattern[0] == '/' && pattern[len(pattern)-1] == '/' {
		c.Event("excluded_regex_shape", 1)

		return
	}
	matchCase := c.Rng.Intn(3) == 0
	text := pattern + "$domain=example.org"
	if matchCase {
		text = pattern + "$match-case,domain=example.org"
	} else if c.Rng.Intn(4) == 0 {
		// The default written out: $~match-case is the case-insensitive
		// comparison of the documented syntax.
		text = pattern + []string{"$~match-case,domain=example.org", "$domain=example.org,~match-case"}[c.Rng.Intn(2)]
		c.Event("rules_with_the_negated_match_case_modifier", 1)
	}
	// A pattern of three characters or more may also stand alone, without any
	// modifier; a '$' at the very end of such a text has nothing after it to
	// delimit and is a literal like any other character.
	alone := len(pattern) >= 3 && !strings.Contains(pattern[:len(pattern)-1], "$") && !strings.HasPrefix(pattern, "@@") && c.Rng.Intn(4) == 0
	if alone {
		text, matchCase = pattern, false
	}
	r, err := rules.NewNetworkRule(text, 1)
	if err != nil {
		c.Inconclusive("rule-rejected-by-parser")

		return
	}
	wantPattern := pattern
	if strings.HasSuffix(wantPattern, "/*") {
		wantPattern = wantPattern[:len(wantPattern)-2] + "^"
	}
	if rules.VerifPattern(r) != wantPattern {
		if alone {
			c.Violation("pattern-differs-from-the-text", nil, c03Witness{Rule: text, Pattern: pattern},
				"rule %q (no modifiers) has the pattern %q, expected %q", text, rules.VerifPattern(r), wantPattern)

			return
		}
		if !strings.ContainsAny(pattern, "$\\,") && !strings.HasPrefix(pattern, "@@") {
			// Nothing in such a text can be taken for a delimiter, an escape
			// or the exception marker: every character before the modifiers
			// is the pattern (a blank is a literal wherever it stands).
			c.Violation("pattern-differs-from-the-text", nil, c03Witness{Rule: text, Pattern: pattern},
				"rule %q has the pattern %q, expected %q", text, rules.VerifPattern(r), wantPattern)

			return
		}
		c.Inconclusive("pattern-not-expressible")

		return
	}
	if alone {
		c.Event("patterns_standing_alone", 1)
	}
	if r.IsRegexRule() {
		c.Event("excluded_regex_shape", 1)

		return
	}

	m := ref.CompileMask(pattern, matchCase)
	var status int
	w := c03Witness{Rule: text, Pattern: pattern, MatchCase: matchCase}
	var compiled interface{ MatchString(string) bool }
	var compiledText string
	if c.Guard("preparePattern", nil, w, func() {
		re, st := rules.VerifPrepared(r)
		status = st
		if re != nil {
			compiled = re
			compiledText = re.String()
		}
	}) {
		return
	}
	if status == -1 {
		c.Violation("mask-pattern-does-not-compile", nil, w, "mask pattern %q of rule %q failed to compile (a character is interpreted as a regular-expression operator)", pattern, text)

		return
	}
	w.Compiled = compiledText
	accept := func(u string) bool {
		if status == 0 {
			return true
		}

		return compiled.MatchString(u)
	}

	nStrings, nAccepted := 0, 0
	judge := func(u string) {
		got, want := accept(u), m.Match(u)
		nStrings++
		if want {
			nAccepted++
		}
		if got != want {
			w2 := w
			w2.String, w2.Got, w2.Reference = u, got, want
			dir := "compiled-accepts-reference-rejects"
			if !got {
				dir = "compiled-rejects-reference-accepts"
			}
			c.Violation(dir, nil, w2, "pattern %q (match-case=%v, compiled %q) on %q: compiled=%v reference=%v", pattern, matchCase, compiledText, u, got, want)
		}
	}

	// Bounded-exhaustive strings over the reduced alphabet.
	alpha := c03Alphabet(pattern)
	maxLen := 4
	if c.Env.Tier == core.Thorough {
		maxLen = 5
	}
	for len(alpha) > 12 {
		alpha = alpha[:12]
	}
	if len(alpha) > 6 && maxLen > 4 {
		maxLen = 4
	}
	if len(alpha) > 9 && maxLen > 3 {
		maxLen = 3
	}
	if !enumerated {
		maxLen = 3
	}
	prefixes := c03Prefixes
	anchoredStart := strings.HasPrefix(pattern, "|")
	if !anchoredStart {
		prefixes = []string{"", "http://", "https://sub.", "ftp://"}
	}
	buf := make([]byte, 0, maxLen)
	var rec func()
	rec = func() {
		s := string(buf)
		for _, p := range prefixes {
			judge(p + s)
		}
		if len(buf) == maxLen {
			return
		}
		for _, b := range alpha {
			buf = append(buf, b)
			rec()
			buf = buf[:len(buf)-1]
		}
	}
	rec()

	// Witnesses and near misses, also through Match on a request, the way
	// users reach the lazily compiled pattern.
	witnesses := c03Witnesses(c, pattern, matchCase)
	if alone && c.Rng.Intn(2) == 0 {
		// The same rule object is asked about host names first (a DNS-level
		// engine and a web engine share rule objects): what it answers for
		// URLs afterwards is still the mask language.
		hosts := []string{"example.org", "adserver.example.com"}
		for _, u := range witnesses[:min(len(witnesses), 4)] {
			if h := hostOfCandidate(u); h != "" {
				hosts = append(hosts, strings.ToLower(h))
			}
		}
		w2 := w
		w2.String = "hostname requests " + strings.Join(hosts, ", ")
		c.Guard("NetworkRule.Match(hostname request)", nil, w2, func() {
			for _, h := range hosts {
				_ = r.Match(rules.NewRequestForHostname(h))
			}
		})
		c.Event("rules_asked_about_host_names_first", 1)
	}
	if c.Rng.Intn(6) == 0 && strings.Count(pattern, "*") <= 1 {
		// (patterns with at most one wildcard: the reference matcher backtracks,
		// and several wildcards over four thousand equal characters cost it
		// minutes)
		// Addresses longer than the 4 KiB that matching looks at: a witness,
		// padding, and the witness again beyond the cap.  What the rule says
		// about such an address is what the mask language says about its first
		// 4096 bytes.
		for _, u := range witnesses[:min(len(witnesses), 3)] {
			if len(u) == 0 || len(u) > 300 || strings.ContainsAny(u, " \n") {
				continue
			}
			long := u + "?" + strings.Repeat("a", 4090-len(u)+c.Rng.Intn(12)) + u
			req := rules.NewRequest(long, "http://example.org/", rules.TypeScript)
			var got bool
			w2 := w
			w2.String = long[:60] + "...(" + strconv.Itoa(len(long)) + " bytes)"
			if !c.Guard("NetworkRule.Match", nil, w2, func() { got = r.Match(req) }) {
				want := m.Match(long[:min(len(long), 4096)])
				nStrings++
				c.Event("addresses_longer_than_the_cap", 1)
				if got != want {
					w2.Got, w2.Reference = got, want
					c.Violation("match-differs-from-mask-language:long-address", nil, w2, "rule %q Match(%d-byte address starting with %q and ending with %q)=%v, the mask language says %v about its first 4096 bytes", text, len(long), u, u, got, want)
				}
			}
		}
	}
	for _, u := range witnesses {
		if strings.ContainsAny(u, " \n") {
			continue
		}
		judge(u)
		if len(u) > 0 && len(u) < 4000 {
			req := rules.NewRequest(u, "http://example.org/", rules.TypeScript)
			var got bool
			w2 := w
			w2.String = u
			if !c.Guard("NetworkRule.Match", nil, w2, func() { got = r.Match(req) }) {
				want := m.Match(u)
				nStrings++
				if got != want {
					w2.Got, w2.Reference = got, want
					c.Violation("match-differs-from-mask-language", nil, w2, "rule %q Match(%q)=%v, reference=%v", text, u, got, want)
				}
			}
		}
	}

	c.Eval(nStrings)
	c.Event("strings_accepted_by_reference", int64(nAccepted))
	if nAccepted > 0 && nAccepted < nStrings {
		c.NonTrivial(core.Hash64(pattern, map[bool]string{true: "mc", false: "ci"}[matchCase]))
	}
	if c.WantSample() && idx%211 == 7 {
		c.Sample(map[string]any{"pattern": pattern, "match_case": matchCase, "compiled": compiledText, "strings": nStrings, "accepted": nAccepted})
	}
}

func init() {
	core.Register(&core.Prop{
		ID:    "C03",
		Level: "exploration",
		Rule: "patterns: every token string of length 1..3 (thorough: 1..4) over the 20 tokens {a B . / ? + ( ) [ ] { } \\ $ ^ * | - % :}, also ||-prefixed, /*-suffixed and pipe-wrapped forms, plus PRNG-sampled longer patterns and the distinct mask patterns of the three bundled real lists (quick 2500, thorough 30000 of them, strings up to length 3 plus witnesses); " +
			"strings: per pattern all strings up to length 4 (thorough 5) over the pattern's own characters in both cases plus one unrelated letter, '/', '.', wrapped in 4..12 scheme/subdomain prefixes, plus witnesses walked from the pattern and their one-edit neighbours (those also through NetworkRule.Match); " +
			"every 48 patterns, 12 rounds of 8 remembered patterns compiled for the first time side by side in 8 goroutines (each compiles to what it compiles to alone); " +
			"oracle = hand-written token matcher vs. the rule's own compiled regexp (hook VerifPrepared); non-trivial = pattern for which the reference accepts some but not all strings; distinct by (pattern, match-case)",
		Assumptions: []string{
			"space is excluded from strings (the prose and the implementations disagree on whether it is a separator)",
			"patterns that begin and end with '/' are regular-expression rules, not mask patterns",
			"START_URL and the separator class are specified by the library's documented constants",
			"this is bounded string enumeration, not language equivalence: a disagreement that needs a string longer than the bound and outside the witness set is missed",
		},
		Setup: c03LoadReal,
		Cases: func(t core.Tier) int { return c03RealCount(t) + c03Enumerated(t) + c03Sampled(t) },
		Run:   c03Run,
	})
}
