package props

import (
	"fmt"

	"github.com/AdguardTeam/urlfilter/rules"

	"verifharness/internal/core"
)

var churnCounter int

// churnRules creates and matches n distinct throw-away rules (mask and regex)
// in this process: behaviour that depends on the NUMBER of earlier operations
// (bounded caches, memo tables that are cleared or evicted) only shows after
// such a phase, when an earlier rule is used again.
func churnRules(c *core.Ctx, n int) {
	req := rules.NewRequest("https://churn.example/p/1.js", "https://other.example/", rules.TypeScript)
	for i := 0; i < n; i++ {
		churnCounter++
		var text string
		switch i % 4 {
		case 0:
			text = fmt.Sprintf("||churn-%d.example/p/%d^", churnCounter, i)
		case 1:
			text = fmt.Sprintf("/churn%d[0-9]+x/", churnCounter)
		case 2:
			text = fmt.Sprintf("|https://churn.example/p/%d.js|$match-case", churnCounter)
		default:
			text = fmt.Sprintf("churn.%d*^p$script,third-party", churnCounter)
		}
		if r, err := rules.NewNetworkRule(text, 1); err == nil {
			_ = r.Match(req)
			// Make sure the pattern really gets compiled (Match stops at the
			// shortcut test for most of these).
			_, _ = rules.VerifPrepared(r)
		}
	}
	c.Event("churn_rules_created", int64(n))
}
