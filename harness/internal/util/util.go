// Package util has small helpers shared by the drivers.
package util

import (
	"hash/fnv"
	"math/rand"
	"sort"
	"strings"

	"github.com/AdguardTeam/urlfilter/filterlist"
	"github.com/AdguardTeam/urlfilter/rules"
)

// ListIDs returns the ids Storage gives to the lists.  They are a function of
// the contents: mostly 0..n-1, otherwise ids that are far apart and congruent
// modulo a power of two (base, base+16, base+32, ...), or negative.
func ListIDs(lists ...string) (ids []int) {
	h := fnv.New32a()
	for _, l := range lists {
		_, _ = h.Write([]byte(l))
		_, _ = h.Write([]byte{0})
	}
	v := h.Sum32()
	base := []int{0, 1, 3, 7}[(v>>8)%4]
	step := 1
	switch v % 10 {
	case 0:
		step = 16
	case 1:
		step = 256
	case 2:
		step = 65536
	case 3:
		step, base = -16, -base-1
	}
	for i := range lists {
		ids = append(ids, base+step*i)
	}

	return ids
}

// Storage builds a string-backed storage with the list ids of ListIDs.
func Storage(lists ...string) *filterlist.RuleStorage {
	var ls []filterlist.RuleList
	ids := ListIDs(lists...)
	for i, l := range lists {
		ls = append(ls, &filterlist.StringRuleList{ID: ids[i], RulesText: ChopEOL(l)})
	}
	s, err := filterlist.NewRuleStorage(ls)
	if err != nil {
		panic(err)
	}

	return s
}

// StorageSplit spreads the lines over 1..3 string-backed lists (ids of ListIDs;
// the first lines of the lists share offset 0) keeping their relative order
// inside each list.
func StorageSplit(rng *rand.Rand, lines []string) *filterlist.RuleStorage {
	nl := 1 + rng.Intn(3)
	parts := make([][]string, nl)
	for i, l := range lines {
		k := rng.Intn(nl)
		if i < nl {
			k = i
		}
		parts[k] = append(parts[k], l)
	}
	contents := make([]string, nl)
	// (line ends are part of the configuration: one storage in three has
	// lists saved with CRLF)
	eol := []string{"\n", "\n", "\r\n"}[rng.Intn(3)]
	for i, p := range parts {
		contents[i] = LinesEOL(p, eol)
	}
	if nl >= 2 && rng.Intn(5) == 0 {
		// A list without a single rule (empty, or comments only) between two
		// others.
		at := 1 + rng.Intn(nl-1)
		contents = append(contents[:at], append([]string{[]string{"", "! comments only\n# nothing else\n", "\n\n"}[rng.Intn(3)]}, contents[at:]...)...)
	}

	return Storage(contents...)
}

// StorageIDs builds a string-backed storage with the given list ids.
func StorageIDs(ids []int, lists []string, ignoreCosmetic bool) (*filterlist.RuleStorage, error) {
	var ls []filterlist.RuleList
	for i, l := range lists {
		ls = append(ls, &filterlist.StringRuleList{ID: ids[i], RulesText: l, IgnoreCosmetic: ignoreCosmetic})
	}

	return filterlist.NewRuleStorage(ls)
}

// Texts returns the texts of network rules.
func Texts(rs []*rules.NetworkRule) []string {
	out := make([]string, 0, len(rs))
	for _, r := range rs {
		if r == nil {
			out = append(out, "<nil>")
		} else {
			out = append(out, r.RuleText)
		}
	}

	return out
}

// SortedSet returns the sorted distinct strings of in.
func SortedSet(in []string) []string {
	m := map[string]struct{}{}
	for _, s := range in {
		m[s] = struct{}{}
	}
	out := make([]string, 0, len(m))
	for s := range m {
		out = append(out, s)
	}
	sort.Strings(out)

	return out
}

// Sorted returns a sorted copy (multiset).
func Sorted(in []string) []string {
	out := append([]string(nil), in...)
	sort.Strings(out)

	return out
}

// EqualStrings compares two string slices.
func EqualStrings(a, b []string) bool {
	if len(a) != len(b) {
		return false
	}
	for i := range a {
		if a[i] != b[i] {
			return false
		}
	}

	return true
}

// Diff returns the elements of a that are not in b (as sets).
func Diff(a, b []string) (out []string) {
	m := map[string]struct{}{}
	for _, s := range b {
		m[s] = struct{}{}
	}
	for _, s := range a {
		if _, ok := m[s]; !ok {
			out = append(out, s)
		}
	}

	return out
}

// Shuffle returns a shuffled copy.
func Shuffle[T any](rng *rand.Rand, in []T) []T {
	out := append([]T(nil), in...)
	rng.Shuffle(len(out), func(i, j int) { out[i], out[j] = out[j], out[i] })

	return out
}

// Pick returns a random element.
func Pick[T any](rng *rand.Rand, in []T) T {
	return in[rng.Intn(len(in))]
}

// Lines joins lines with LF and a final newline.
func Lines(ls []string) string {
	if len(ls) == 0 {
		return ""
	}

	return strings.Join(ls, "\n") + "\n"
}

// Class is the verdict class of a basic rule.
func Class(r *rules.NetworkRule) string {
	switch {
	case r == nil:
		return "none"
	case r.Whitelist:
		return "allow"
	default:
		return "block"
	}
}

// LinesEOL joins lines with the given line terminator (also after the last).
func LinesEOL(ls []string, eol string) string {
	if len(ls) == 0 {
		return ""
	}

	return strings.Join(ls, eol) + eol
}

// MoreOftenThanListed returns the rule texts that occur in got more often than
// there are lines with that text in the lists (an index may legitimately
// return a rule that is listed twice only once, never the other way round).
func MoreOftenThanListed(got []string, lists ...string) (out []string) {
	listed := map[string]int{}
	for _, l := range lists {
		for _, line := range strings.Split(l, "\n") {
			listed[strings.TrimSpace(line)]++
		}
	}
	seen := map[string]int{}
	for _, t := range got {
		seen[t]++
	}
	for t, n := range seen {
		if n > listed[t] {
			out = append(out, t)
		}
	}
	sort.Strings(out)

	return out
}

// ChopEOL removes, for one content in three (decided by the content itself so
// that a case replays identically), the line terminator after the last line:
// a list saved without a final newline holds the same rules.
func ChopEOL(content string) string {
	if len(content) < 2 {
		return content
	}
	h := uint32(2166136261)
	for i := 0; i < len(content); i++ {
		h = (h ^ uint32(content[i])) * 16777619
	}
	if (h>>7)%3 != 0 {
		return content
	}
	if strings.HasSuffix(content, "\r\n") {
		return content[:len(content)-2]
	}
	if strings.HasSuffix(content, "\n") {
		return content[:len(content)-1]
	}

	return content
}
