//go:build !race

package mon

// RaceEnabled tells whether the binary was built with the race detector.
const RaceEnabled = false
