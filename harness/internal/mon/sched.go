package mon

import (
	"hash/fnv"
	"math/rand"
	"os"
	"runtime"
	"strconv"
	"strings"
	"sync"
	"sync/atomic"
	"time"
)

// Perturbation modes of the schedule monitor.
const (
	ModeNone = iota
	ModeGosched
	ModeSleep
	ModeRendezvous
)

// Sched is the schedule perturbation and observation handler for one round.
// Its own state is guarded by its own mutex, which the code under test never
// sees; it never blocks unboundedly.
type Sched struct {
	Mode int
	P    float64
	// OffsetKeys makes the rendezvous at storage.miss meet goroutines that miss
	// on the same OFFSET in different lists (low 32 bits of the storage index).
	OffsetKeys bool

	mu        sync.Mutex
	rng       *rand.Rand
	inflight  map[int64]int   // storage index -> goroutines between miss and insert
	waiting   map[string]bool // rendezvous point+key -> a goroutine is waiting there
	arrived   map[string]int
	orderHash uint64

	// Observations.
	OverlapMiss       atomic.Int64 // a second goroutine missed on an index while another was between miss and insert
	RendezvousMet     atomic.Int64
	RendezvousTimeout atomic.Int64
	FileSeekedWhile   atomic.Int64 // arrivals at file.seeked while another goroutine is inside seek..read
	CompileArrivals   atomic.Int64
	PoolGets          atomic.Int64
	Yields            atomic.Int64
	insideSeek        atomic.Int64
}

// NewSched creates a handler.
func NewSched(seed int64, mode int, p float64) *Sched {
	return &Sched{
		Mode: mode, P: p, rng: rand.New(rand.NewSource(seed)),
		inflight: map[int64]int{}, waiting: map[string]bool{}, arrived: map[string]int{},
	}
}

func (s *Sched) chance() (bool, int) {
	s.mu.Lock()
	defer s.mu.Unlock()

	return s.rng.Float64() < s.P, 1 + s.rng.Intn(50)
}

// Handle is installed through SetExtra.
func (s *Sched) Handle(name string, key int64) {
	switch name {
	case "storage.miss":
		s.mu.Lock()
		s.inflight[key]++
		if s.inflight[key] >= 2 {
			s.OverlapMiss.Add(1)
		}
		s.note(name, key)
		s.mu.Unlock()
	case "storage.insert":
		s.mu.Lock()
		if s.inflight[key] > 0 {
			s.inflight[key]--
		}
		s.note(name, key)
		s.mu.Unlock()
	case "file.seeked":
		if s.insideSeek.Add(1) > 1 {
			s.FileSeekedWhile.Add(1)
		}
		defer s.insideSeek.Add(-1)
	case "rule.compile":
		s.CompileArrivals.Add(1)
	case "dns.pool.get":
		s.PoolGets.Add(1)
	case "storage.hit", "shortcuts.candidate", "shortcuts.match", "shortcuts.dedup", "domains.candidate", "domains.match", "seqscan.scan", "dns.host.candidate", "dns.host.match":
		// Too frequent to perturb each time; perturb rarely.
		if s.Mode == ModeGosched || s.Mode == ModeSleep {
			if ok, _ := s.chance(); ok && key%7 == 0 {
				runtime.Gosched()
			}
		}

		return
	}

	switch s.Mode {
	case ModeGosched:
		if ok, _ := s.chance(); ok {
			s.Yields.Add(1)
			runtime.Gosched()
		}
	case ModeSleep:
		if ok, us := s.chance(); ok {
			s.Yields.Add(1)
			time.Sleep(time.Duration(us) * time.Microsecond)
		}
	case ModeRendezvous:
		if name != "storage.miss" && name != "file.seeked" && name != "rule.compile" {
			return
		}
		if s.OffsetKeys && name == "storage.miss" {
			key &= 0xFFFFFFFF
		}
		k := name + "/" + strconv.FormatInt(key, 10)
		s.mu.Lock()
		if s.waiting[k] {
			// Somebody waits for us: release them.
			s.waiting[k] = false
			s.arrived[k]++
			s.mu.Unlock()
			s.RendezvousMet.Add(1)

			return
		}
		s.waiting[k] = true
		s.mu.Unlock()
		// Hold this goroutine for a bounded number of yields (a logical
		// bound, not a deadline) until a second one reaches the same point.
		for i := 0; i < 2000; i++ {
			runtime.Gosched()
			s.mu.Lock()
			w := s.waiting[k]
			s.mu.Unlock()
			if !w {
				return
			}
		}
		s.mu.Lock()
		s.waiting[k] = false
		s.mu.Unlock()
		s.RendezvousTimeout.Add(1)
	}
}

// note mixes an event into the order hash; the caller holds mu.
func (s *Sched) note(name string, key int64) {
	h := fnv.New64a()
	_, _ = h.Write([]byte(name))
	_, _ = h.Write([]byte(strconv.FormatInt(key, 10)))
	s.orderHash = s.orderHash*1099511628211 ^ h.Sum64()
}

// OrderHash identifies the global order of miss/insert events of the round.
func (s *Sched) OrderHash() uint64 {
	s.mu.Lock()
	defer s.mu.Unlock()

	return s.orderHash
}

// RaceLogPath returns the file the race detector of this process writes to, or
// "" when GORACE has no log_path.
func RaceLogPath() string {
	for _, f := range strings.Fields(os.Getenv("GORACE")) {
		if p, ok := strings.CutPrefix(f, "log_path="); ok {
			return p + "." + strconv.Itoa(os.Getpid())
		}
	}

	return ""
}

// RaceReport is one parsed report of the race detector.
type RaceReport struct {
	Sig  string
	Text string
}

// ReadRaceReports parses the reports in the log starting at byte offset off and
// returns them with the new offset.
func ReadRaceReports(path string, off int64) (reps []RaceReport, newOff int64) {
	b, err := os.ReadFile(path)
	if err != nil || int64(len(b)) <= off {
		return nil, off
	}
	txt := string(b[off:])
	newOff = int64(len(b))
	for _, blk := range strings.Split(txt, "==================") {
		if !strings.Contains(blk, "WARNING: DATA RACE") {
			continue
		}
		// Signature: the functions of the two access stacks (first urlfilter or
		// harness frame of each), line numbers stripped.
		var tops []string
		lines := strings.Split(blk, "\n")
		for i, l := range lines {
			if strings.HasPrefix(l, "Read at ") || strings.HasPrefix(l, "Write at ") || strings.HasPrefix(l, "Previous read at ") || strings.HasPrefix(l, "Previous write at ") {
				for j := i + 1; j < len(lines) && strings.TrimSpace(lines[j]) != ""; j++ {
					fn := strings.TrimSpace(lines[j])
					if strings.Contains(fn, "AdguardTeam/urlfilter") && strings.Contains(fn, "(") {
						if k := strings.LastIndex(fn, "("); k > 0 {
							fn = fn[:k]
						}
						tops = append(tops, strings.TrimPrefix(fn, "github.com/AdguardTeam/urlfilter"))

						break
					}
				}
			}
		}
		if len(blk) > 4000 {
			blk = blk[:4000]
		}
		reps = append(reps, RaceReport{Sig: strings.Join(tops, " <-> "), Text: strings.TrimSpace(blk)})
	}

	return reps, newOff
}
