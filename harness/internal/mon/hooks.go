// Package mon contains the monitors that are attached to the code under test:
// the hook event sink and the schedule perturbation used by the concurrency
// property.
package mon

import (
	"sync"
	"sync/atomic"

	"github.com/AdguardTeam/urlfilter"
)

// Names of the hook points compiled into the repository behind the verif tag.
var Names = []string{
	"storage.hit", "storage.miss", "storage.insert", "file.seeked", "rule.compile",
	"dns.pool.get", "dns.pool.put", "dns.host.candidate", "dns.host.match",
	"shortcuts.candidate", "shortcuts.dedup", "shortcuts.match",
	"domains.candidate", "domains.match", "seqscan.scan",
}

var (
	counters = map[string]*atomic.Int64{}
	other    atomic.Int64
	extra    atomic.Pointer[func(name string, key int64)]
	once     sync.Once
)

// Install installs the counting handler (idempotent).
func Install() {
	once.Do(func() {
		for _, n := range Names {
			counters[n] = &atomic.Int64{}
		}
		urlfilter.VerifSetHandler(func(name string, key int64) {
			if c, ok := counters[name]; ok {
				c.Add(1)
			} else {
				other.Add(1)
			}
			if f := extra.Load(); f != nil {
				(*f)(name, key)
			}
		})
	})
}

// SetExtra installs an additional handler (schedule perturbation, recording).
func SetExtra(f func(name string, key int64)) {
	if f == nil {
		extra.Store(nil)

		return
	}
	extra.Store(&f)
}

// Snapshot returns the current counter values.
func Snapshot() map[string]int64 {
	out := make(map[string]int64, len(counters))
	for n, c := range counters {
		out[n] = c.Load()
	}

	return out
}

// Delta returns after-before for every counter that changed.
func Delta(before, after map[string]int64) map[string]int64 {
	out := map[string]int64{}
	for n, v := range after {
		if d := v - before[n]; d != 0 {
			out[n] = d
		}
	}

	return out
}
