//go:build verif

// Package fuzz holds the coverage-guided (go test -fuzz) workload sources of
// the thorough tier.  The verdict still comes from the same monitors as the
// generated workloads: a fuzz input fails iff a monitor records a violation
// (or the code under test crashes).
package fuzz

import (
	"hash/fnv"
	"testing"

	"verifharness/internal/core"
	"verifharness/internal/props"
)

func seedOf(s string) int64 {
	h := fnv.New64a()
	_, _ = h.Write([]byte(s))

	return int64(h.Sum64() & 0x7fffffffffffffff)
}

func FuzzC12(f *testing.F) {
	for _, s := range []string{
		"||example.org^", "@@||example.org^$document", "a$domain=example.org", "/regex[0-9]+/", "0.0.0.0 example.org # c", "example.org##.banner",
		"||a.com^$dnsrewrite=NOERROR;MX;10 m.example", "||a.com^$client='Frank\\'s laptop'|10.0.0.0/8,ctag=~a|b", "|http://a.com/*$third-party,~script,domain=a.com|~b.a.com",
		"/(foo|bar)+baz/$match-case", "||a.com^$denyallow=b.com,dnstype=~A", "! comment", "# comment", "example.*#@#.x", "$$script",
	} {
		f.Add(s)
	}
	f.Fuzz(func(t *testing.T, line string) {
		if len(line) > 6000 {
			return
		}
		for i := 0; i < len(line); i++ {
			if line[i] == '\n' || line[i] == '\r' {
				return // one line at a time
			}
		}
		c, viol := core.Standalone("C12", seedOf(line))
		props.FuzzLineC12(c, line)
		if vs := viol(); len(vs) > 0 {
			t.Fatalf("C12 monitor violation %s on line %q: %s", vs[0].Sig, line, vs[0].Msg)
		}
	})
}

func FuzzC10(f *testing.F) {
	for _, s := range []string{
		"1.2.3.4", "::1", "example.net", "REFUSED", "NOERROR;A;1.2.3.4", "NOERROR;AAAA;::1", "NOERROR;MX;10 mail.example.net", "NOERROR;SRV;1 2 80 s.example.net",
		"NOERROR;HTTPS;1 . alpn=h3", "NOERROR;SVCB;1 x.example", "NOERROR;PTR;p.example.net.", "NOERROR;TXT;hello", "NOERROR;CNAME;c.example.net", "NXDOMAIN;;", "NOERROR;NS;x", "", ";;",
	} {
		f.Add(s)
	}
	f.Fuzz(func(t *testing.T, v string) {
		if len(v) > 2000 {
			return
		}
		c, viol := core.Standalone("C10", seedOf(v))
		props.FuzzValueC10(c, v)
		if vs := viol(); len(vs) > 0 {
			t.Fatalf("C10 monitor violation %s on value %q: %s", vs[0].Sig, v, vs[0].Msg)
		}
	})
}
