// Command verifrun runs the runtime monitors of one property.
package main

import (
	"verifharness/internal/core"
	_ "verifharness/internal/props"
)

func main() {
	core.Main()
}
